"""Validate MANIFEST.json and evidence files against the schemas (run with python3-vt)."""
import glob, json, sys
import jsonschema
ok = True
m = json.load(open('/verif/MANIFEST.json'))
jsonschema.validate(m, json.load(open('/root/.vp/MANIFEST.schema.json')))
es = json.load(open('/root/.vp/EVIDENCE.schema.json'))
for f in sorted(glob.glob('/verif/evidence/*.json')):
    try:
        jsonschema.validate(json.load(open(f)), es)
    except Exception as e:
        ok = False
        print('INVALID', f, str(e)[:300])
props = [json.loads(l)['id'] for l in open('/verif/properties.jsonl')]
claimed = {c['property_id'] for c in m['checks']}
na = {n['property_id'] for n in m.get('not_applicable', [])}
print('claimed', sorted(claimed)); print('unclaimed and not in not_applicable:', [p for p in props if p not in claimed and p not in na])
print('ok' if ok else 'FAILED')
