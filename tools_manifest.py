"""Regenerate /verif/MANIFEST.json from the table below (run with any python3)."""
import json
import os

ROOT = os.path.dirname(os.path.abspath(__file__))

CHECKS = {
    "C09": {
        "level": "Exhaustive enumeration of all operation histories up to length 8/8/6 (quick) or 10/10/7 "
        "(thorough) for Stack / SnapshottingInt / ParserState against a full-copy reference model, plus "
        "Hypothesis random and rule-based-state-machine histories of up to 200 steps. Complete within the "
        "bound, sampled beyond it.",
        "note": "Trusted: the full-copy model (20 lines) and the precondition that ok()/restore() are only "
        "called with an open checkpoint.",
        "technique": "exhaustive small-scope history enumeration + Hypothesis stateful testing against a "
        "full-copy reference model",
        "ref": "DESIGN.md 4 C09",
    },
    "C14": {
        "level": "Exhaustive over every text over {a, e-acute, LF} of length <= 8 (quick) / <= 10 (thorough) x "
        "every offset x every span, against closed-form line/column arithmetic; Hypothesis texts up to 400 "
        "characters over wide Unicode. Complete within the bound.",
        "note": "Trusted: the closed-form oracle (count/rfind of LF). Only LF line breaks are in the domain; "
        "Span.lines() and line_of() are checked against the widest reading of the statement.",
        "technique": "exhaustive small-scope enumeration + Hypothesis text generation against a closed-form "
        "oracle (with inverse-map round trip)",
        "ref": "DESIGN.md 4 C14",
    },
    "C18": {
        "level": "Hypothesis-generated operator tables and well-formed Pair streams (<= 12 tokens) checked "
        "with a two-directional validity predicate (whole stream consumed, in-order yield equals the stream, "
        "deep-precedence property), plus exhaustive enumeration of every well-formed stream of <= 7 (quick) / "
        "<= 9 (thorough) tokens under all 24 precedence orders of a left-assoc infix, a right-assoc infix, a "
        "prefix and a postfix operator.",
        "note": "Trusted: the deep-precedence predicate; it is self-tested in every run (exactly one of all "
        "brute-force enumerated trees of each stream of <= 7 tokens satisfies it). Ties between fixities are "
        "outside the domain.",
        "technique": "Hypothesis generation + exhaustive small-scope enumeration against a validity predicate "
        "(self-tested by brute-force tree enumeration)",
        "ref": "DESIGN.md 4 C18",
    },
}

# properties whose check is not built yet (kept current while the framework grows)
PENDING_REASON = "check not built yet in this session; no claim is made (see DESIGN.md section 10)"


def main():
    props = [json.loads(l)["id"] for l in open(os.path.join(ROOT, "properties.jsonl"))]
    checks = []
    for pid in props:
        if pid not in CHECKS:
            continue
        c = CHECKS[pid]
        checks.append(
            {
                "property_id": pid,
                "quick_cmd": f"PYTHONHASHSEED=0 /venv/bin/python -m pestverif check {pid} --tier quick",
                "thorough_cmd": f"PYTHONHASHSEED=0 /venv/bin/python -m pestverif check {pid} --tier thorough",
                "evidence_file": f"/verif/evidence/{pid}.json",
                "replay_cmd_template": f"/venv/bin/python -m pestverif replay {pid} {{path}}",
                "engine": "pestverif",
                "level_claimed": {"category": "exploration", "text": c["level"], "design_ref": c["ref"]},
                "level_note": c["note"],
                "technique": c["technique"],
            }
        )
    manifest = {
        "version": 1,
        "setup_cmd": "sh /verif/setup.sh",
        "hooks": {
            "guard": "PYTHON_PEST_VERIF",
            "enable": "no source hooks are needed: checks import pest from /repo's working tree through the "
            "editable install in /venv, so they always run the current sources",
            "baseline_off_cmd": "cd /repo && /venv/bin/python -m pytest -ra -q -p no:cacheprovider "
            "--continue-on-collection-errors",
            "source_commits": [],
            "add_only": True,
        },
        "engines": [
            {
                "name": "pestverif",
                "path": "/verif/pestverif",
                "serves_properties": [c["property_id"] for c in checks],
                "kind_free_text": "Hypothesis + exhaustive small-scope enumeration + reference models / "
                "differential and metamorphic oracles, sharded over 16 processes",
            }
        ],
        "checks": checks,
        "not_applicable": [
            {"property_id": pid, "reason": PENDING_REASON} for pid in props if pid not in CHECKS
        ],
        "notes": "Known findings and fixed defects: /verif/known_findings.jsonl. Seeded mutants: /verif/seeded/.",
    }
    with open(os.path.join(ROOT, "MANIFEST.json"), "w") as fh:
        json.dump(manifest, fh, indent=1)
        fh.write("\n")


if __name__ == "__main__":
    main()
