"""Regenerate /verif/MANIFEST.json from the table below (run with any python3)."""
import json
import os

ROOT = os.path.dirname(os.path.abspath(__file__))

CHECKS = {
    "C01": {
        "level": "Differential search: Hypothesis-driven constructive grammar generator (profile full) x optimizer "
        "off/on x every rule and EOI as start rule x derived/mutated/random inputs x start positions; the "
        "generated module is compared with the interpreter of the same Parser (tree incl. tags, or "
        "furthest_pos), plus compile/import and generate-twice checks. Sampled, not exhaustive.",
        "note": "Trusted: the harness' grammar printer (conservative pest v2 layout) and outcome normalisation. "
        "Labels of expected/unexpected sets are not compared.",
        "technique": "Hypothesis-generated grammars and inputs, differential oracle (interpreter vs generated "
        "code), structural shrinking",
        "ref": "DESIGN.md 4 C01",
    },
    "C02": {
        "level": "Differential search over optimizer configurations: generated grammars (optimizer-bait and full "
        "profiles) x {default pipeline, each exported pass alone, three random pass lists}, each configuration "
        "in its own process, compared with optimizer=None for the interpreter and for generated code (outcome "
        "class and tree); plus an exhaustive matrix of skip-until shapes (stop-string sets x every input up to "
        "4 (quick) / 5 (thorough) characters x every start offset).",
        "note": "Trusted: process isolation per configuration (the optimizer mutates process-wide rule objects); "
        "failure positions are deliberately not compared.",
        "technique": "Hypothesis-generated grammars and pass lists + exhaustive small-scope skip-until matrix, "
        "differential oracle (optimizer on vs off), structural shrinking",
        "ref": "DESIGN.md 4 C02",
    },
    "C03": {
        "level": "Exhaustive enumeration of all two-rule grammars with a start expression of <= 4 (quick) / <= 5 "
        "(thorough) nodes over 10 terminals and 11 operators x 34 inputs, plus Hypothesis-generated larger "
        "grammars, against an independent reference PEG evaluator (success/failure and full tree).",
        "note": "Trusted: the reference evaluator pestverif/refpeg.py (pure functional, ~300 lines, cross-checked "
        "by running pest's own meta-grammar on the 15 bundled grammar files) and the well-formedness analysis.",
        "technique": "exhaustive small-scope enumeration + Hypothesis generation against a reference-model "
        "oracle",
        "ref": "DESIGN.md 3, 4 C03",
    },
    "C04": {
        "level": "Hypothesis-generated grammars with none/one/both trivia rules and all rule modifiers, inputs "
        "with trivia injected at every position class, compared in all four execution modes with the "
        "reference evaluator (outcome and full tree including trivia pairs and children of atomic rules); plus two "
        "deterministic matrices: all 194 WHITESPACE x COMMENT definitions around fixed rules using every modifier "
        "with trivia in every gap, and every assignment of the five modifiers to rule chains of length 2..3 "
        "(quick) / 2..4 (thorough) x three trivia settings x trivia in every subset of levels.",
        "note": "Trusted: the reference evaluator's reading of pest's skip/atomicity rules (DESIGN.md 3). Trivia "
        "rules with atomicity modifiers or stack effects are unspecified and not generated.",
        "technique": "Hypothesis generation + exhaustive small-scope configuration matrices against a "
        "reference-model oracle in four execution modes",
        "ref": "DESIGN.md 3, 4 C04",
    },
    "C05": {
        "level": "Hypothesis-generated stack grammars compared in four modes with a reference evaluator whose "
        "stack is immutable (so every undo is correct by construction), plus an operation-level check of "
        "(result, position, stack) for each of the seven operations on prepared parser states, random nested "
        "push/pop/rollback histories compiled to grammars, and all such histories up to 9 (quick) / 11 "
        "(thorough) steps enumerated exhaustively, each observed through PEEK_ALL / POP_ALL / PEEK[..].",
        "note": "Trusted: reference evaluator; PEEK[a..b] outside the stack is unspecified and discarded.",
        "technique": "Hypothesis generation + exhaustive small-scope history enumeration against a "
        "reference-model oracle + operation-level specification check",
        "ref": "DESIGN.md 3, 4 C05",
    },
    "C06": {
        "level": "Validity predicates (the clauses of the statement) evaluated on the live Pairs of every "
        "successful parse of generated grammars (four modes, all start rules, random start positions) and "
        "of the 15 bundled grammars on corpus inputs and their mutations.",
        "note": "Trusted: the predicates in pestverif/treecheck.py and the meta-grammar oracle that supplies rule "
        "names/tags of bundled grammars.",
        "technique": "Hypothesis generation + corpus mutation, validity-predicate oracle over the public API",
        "ref": "DESIGN.md 4 C06",
    },
    "C07": {
        "level": "Hypothesis-generated well-formed grammars, inputs forced through the uncommon paths (empty, "
        "prefixes, start_pos = len), four modes: outcome must be Pairs or PestParsingError, step budget "
        "decides termination, second call must give an equal result.",
        "note": "Trusted: the constructive well-formedness guarantee of the generator (re-checked by an "
        "independent analysis) and the sys.monitoring step budget.",
        "technique": "Hypothesis generation, totality + determinism oracle with a counted step budget",
        "ref": "DESIGN.md 4 C07",
    },
    "C10": {
        "level": "Generated-text search: random derivations from pest's meta-grammar, random ASTs printed in a "
        "randomised free layout, the 15 bundled grammars and single-token mutations of all of them; the "
        "transcribed meta-grammar (run by the reference evaluator) decides validity and denotes the expected "
        "structure; python-pest must accept exactly the valid texts and build that structure. Plus a "
        "deterministic matrix of 4,347 texts: every escape form, intact and damaged, in every literal position.",
        "note": "Trusted: the hand transcription of tests/grammars/meta.pest (self-checked as a fix-point in every "
        "run, exit 2 otherwise) and the normalisation applied to both sides.",
        "technique": "grammar-based generation + token mutation, differential oracle against pest's own "
        "meta-grammar evaluated by a reference PEG interpreter",
        "ref": "DESIGN.md 4 C10",
    },
    "C11": {
        "level": "Generated-text search for totality: every prefix of bundled and generated grammars, mutations, "
        "token soups, Hypothesis text; outcome must be a Parser or a PestGrammarError whose message renders and "
        "points inside the text (column base calibrated from the implementation); hand-picked endings, huge "
        "numbers, surrogates, recursive stop rules, flat chains of 2,500 operands; with and without the "
        "optimizer; step budget decides termination (wall-clock time-outs are counted as inconclusive). Thorough "
        "tier: additionally one coverage-guided Atheris/libFuzzer campaign of 400,000 runs per shard whose "
        "candidates and corpus are re-judged by the same oracle.",
        "note": "Trusted: nothing beyond the outcome classification. RecursionError on deeply nested texts (>= 100 "
        "nesting characters) is the open known finding K04 and only counted; anywhere else it is a violation. Texts "
        "whose syntactically estimated unrolled size exceeds 2e6 are not loaded (open known finding K05).",
        "technique": "exhaustive truncation + mutation + Hypothesis text generation + coverage-guided fuzzing "
        "(Atheris, thorough tier), totality oracle",
        "ref": "DESIGN.md 4 C11",
    },
    "C12": {
        "level": "Exhaustive membership sweeps over all 1,114,112 code points for the 12 explicit built-in character "
        "rules in four modes; boundary-focused (quick) / exhaustive (thorough) sweeps for a Hypothesis-generated "
        "family of ranges, literals and merged choices and for Unicode property rules (cross-mode equality); "
        "a deterministic matrix of 19 regex-special characters x 9 syntactic roles; case-insensitive literals "
        "(ASCII folding only, exact member sets for every code point); every escape form in string, "
        "case-insensitive string, PUSH_LITERAL and both range positions, and after an escaped backslash.",
        "note": "Trusted: explicit set definitions taken from the pest book; Unicode property rules are only "
        "compared across modes.",
        "technique": "exhaustive code-point enumeration + Hypothesis-generated character classes against explicit "
        "set oracles and cross-mode differential",
        "ref": "DESIGN.md 4 C12",
    },
    "C13": {
        "level": "Predicates on every PestParsingError raised for generated grammars and reporting.pest in four "
        "modes, on multi-line / non-ASCII texts and non-zero start positions: position range, rule names, "
        "rendering, line/column/source line against the closed form.",
        "note": "Trusted: predicates in pestverif/errcheck.py; column base 0 or 1 both accepted.",
        "technique": "Hypothesis generation, validity-predicate oracle on the live exception (closed-form "
        "line/column)",
        "ref": "DESIGN.md 4 C13",
    },
    "C15": {
        "level": "Hypothesis-generated histories of parser creation (7 optimizer configurations, fixed and generated "
        "grammars), code generation and parsing executed in one process and compared, operation by operation, "
        "with fresh-process reference results; seeded thread schedules owned by a sys.monitoring LINE-event "
        "cooperative scheduler compared with sequential results, focused contention schedules on one shared "
        "object, and preemption-bounded EXHAUSTIVE schedules (every ordered pair of inputs of a group, the first "
        "thread pre-empted at every single line of its parse by a whole parse of the second); free-running "
        "stress as a supplement.",
        "note": "Trusted: fresh forked children of a pristine driver as the isolation reference. Races inside a "
        "single source line or inside the C regex module are out of reach.",
        "technique": "Hypothesis-generated operation histories with an isolation oracle + owned (seeded, "
        "replayable) thread schedules, incl. exhaustive single-preemption schedules",
        "ref": "DESIGN.md 4 C15",
    },
    "C16": {
        "level": "Metamorphic search: generated SOI-free grammars, every k in 0..len for texts <= 12 characters, "
        "four modes: parse at start_pos k vs parse of the suffix (shifted), and invariance under replacing "
        "the prefix.",
        "note": "Trusted: the shift relation itself; nothing else.",
        "technique": "Hypothesis generation, metamorphic oracle (suffix shift, prefix replacement)",
        "ref": "DESIGN.md 4 C16",
    },
    "C08": {
        "level": "Metamorphic search on the 11 bundled grammars of the nine families: 1-3 random rewrites (six "
        "kinds) at random sites obtained from the meta-grammar oracle, corpus and mutated inputs, four modes; "
        "outcome class and tree must equal those of the original grammar; plus every nested pair of rewrites "
        "(outer duplicating x inner, inside the first copy) at every site that touches the stack.",
        "note": "Trusted: span extraction by the meta-grammar oracle (every rewritten text is re-validated); NEVER "
        "is a private-use literal absent from all inputs.",
        "technique": "metamorphic testing with generated rewrite sequences over real grammars and a mutated "
        "corpus",
        "ref": "DESIGN.md 4 C08",
    },
    "C09": {
        "level": "Exhaustive enumeration of all operation histories up to length 8/8/6 (quick) or 10/10/7 "
        "(thorough) for Stack / SnapshottingInt / ParserState, and of all canonical Stack histories up to "
        "length 11 (quick) / 13 (thorough), against a full-copy reference model, plus "
        "Hypothesis random and rule-based-state-machine histories of up to 200 steps. Complete within the "
        "bound, sampled beyond it.",
        "note": "Trusted: the full-copy model (20 lines) and the precondition that ok()/restore() are only "
        "called with an open checkpoint.",
        "technique": "exhaustive small-scope history enumeration + Hypothesis stateful testing against a "
        "full-copy reference model",
        "ref": "DESIGN.md 4 C09",
    },
    "C14": {
        "level": "Exhaustive over every text over {a, e-acute, LF, blank} of length <= 7 (quick) / <= 9 (thorough) x "
        "every offset x every span, against closed-form line/column arithmetic; Hypothesis texts up to 400 "
        "characters over wide Unicode. Complete within the bound.",
        "note": "Trusted: the closed-form oracle (count/rfind of LF). Only LF line breaks are in the domain; "
        "Span.lines() and line_of() are checked against the widest reading of the statement.",
        "technique": "exhaustive small-scope enumeration + Hypothesis text generation against a closed-form "
        "oracle (with inverse-map round trip)",
        "ref": "DESIGN.md 4 C14",
    },
    "C17": {
        "level": "Hypothesis-generated RFC 8259 documents (own serialiser: whitespace placement, number and string "
        "spellings) against json.loads for both JSON grammars in four modes incl. rejection of proper "
        "prefixes; Hypothesis-generated arithmetic expressions printed from the documented precedence table "
        "against an independent evaluator for the three calculator implementations, regenerated from the "
        "current tree with and without the optimizer; plus a deterministic operator-interaction matrix (every "
        "ordered triple of infix operators in a flat chain x one unary minus or factorial at each position: "
        "1,125 expressions).",
        "note": "Trusted: json.loads, the 30-line reference evaluator, the documented precedence table in "
        "grammar_encoded_prec.pest.",
        "technique": "Hypothesis recursive generation, differential oracle against independent reference "
        "implementations",
        "ref": "DESIGN.md 4 C17",
    },
    "C18": {
        "level": "Hypothesis-generated operator tables and well-formed Pair streams (<= 12 tokens) checked "
        "with a two-directional validity predicate (whole stream consumed, in-order yield equals the stream, "
        "deep-precedence property), plus exhaustive enumeration of every well-formed stream of <= 7 (quick) / "
        "<= 9 (thorough) tokens under all 24 precedence orders of a left-assoc infix, a right-assoc infix, a "
        "prefix and a postfix operator.",
        "note": "Trusted: the deep-precedence predicate; it is self-tested in every run (exactly one of all "
        "brute-force enumerated trees of each stream of <= 7 tokens satisfies it). Ties between fixities are "
        "outside the domain.",
        "technique": "Hypothesis generation + exhaustive small-scope enumeration against a validity predicate "
        "(self-tested by brute-force tree enumeration)",
        "ref": "DESIGN.md 4 C18",
    },
}

# properties whose check is not built yet (kept current while the framework grows)
PENDING_REASON = "check not built yet in this session; no claim is made (see DESIGN.md section 10)"


def main():
    props = [json.loads(l)["id"] for l in open(os.path.join(ROOT, "properties.jsonl"))]
    checks = []
    for pid in props:
        if pid not in CHECKS:
            continue
        c = CHECKS[pid]
        checks.append(
            {
                "property_id": pid,
                "quick_cmd": f"PYTHONHASHSEED=0 /venv/bin/python -m pestverif check {pid} --tier quick",
                "thorough_cmd": f"PYTHONHASHSEED=0 /venv/bin/python -m pestverif check {pid} --tier thorough",
                "evidence_file": f"/verif/evidence/{pid}.json",
                "replay_cmd_template": f"/venv/bin/python -m pestverif replay {pid} {{path}}",
                "engine": "pestverif",
                "level_claimed": {"category": "exploration", "text": c["level"], "design_ref": c["ref"]},
                "level_note": c["note"],
                "technique": c["technique"],
            }
        )
    manifest = {
        "version": 1,
        "setup_cmd": "sh /verif/setup.sh",
        "hooks": {
            "guard": "PYTHON_PEST_VERIF",
            "enable": "no source hooks are needed: checks import pest from /repo's working tree through the "
            "editable install in /venv, so they always run the current sources",
            "baseline_off_cmd": "cd /repo && /venv/bin/python -m pytest -ra -q -p no:cacheprovider "
            "--continue-on-collection-errors",
            "source_commits": [],
            "add_only": True,
        },
        "engines": [
            {
                "name": "pestverif",
                "path": "/verif/pestverif",
                "serves_properties": [c["property_id"] for c in checks],
                "kind_free_text": "Hypothesis + exhaustive small-scope enumeration + reference models / "
                "differential and metamorphic oracles, sharded over 16 processes",
            }
        ],
        "checks": checks,
        "not_applicable": [
            {"property_id": pid, "reason": PENDING_REASON} for pid in props if pid not in CHECKS
        ],
        "notes": "Known findings and fixed defects: /verif/known_findings.jsonl. Seeded mutants: /verif/seeded/.",
    }
    with open(os.path.join(ROOT, "MANIFEST.json"), "w") as fh:
        json.dump(manifest, fh, indent=1)
        fh.write("\n")


if __name__ == "__main__":
    main()
