"""AST -> pest grammar text.

`conservative` layout (DESIGN G10): plain pest v2 that avoids the spellings python-pest's scanner is known to
mishandle, so that front-end defects cannot mask engine properties. The `free` layout (used by C10/C11)
draws spacing, comments, escape spellings, redundant parentheses etc. from an rng.
"""

from __future__ import annotations

from pestverif.gast import POSTFIX, PREFIX

_PLAIN = set("abcdefghijklmnopqrstuvwxyzABCDEFGHIJKLMNOPQRSTUVWXYZ0123456789 _-+*/=<>()[]{}.,;:!?#@$%&|~^`")


def _u(cp: int) -> str:
    if cp <= 0xFF:
        return "\\u{%02X}" % cp
    if cp <= 0xFFFF:
        return "\\u{%04X}" % cp
    return "\\u{%06X}" % cp


def esc_string(s: str) -> str:
    out = []
    for c in s:
        if c in _PLAIN:
            out.append(c)
        elif c == '"':
            out.append('\\"')
        elif c == "\\":
            out.append("\\\\")
        else:
            out.append(_u(ord(c)))
    return '"' + "".join(out) + '"'


def esc_char(c: str) -> str:
    if c.isascii() and c.isalnum():
        return "'" + c + "'"
    return "'" + _u(ord(c)) + "'"


def _suffix(e) -> str:
    k = e[0]
    if k == "opt":
        return "?"
    if k == "star":
        return "*"
    if k == "plus":
        return "+"
    if k == "exact":
        return "{%d}" % e[2]
    if k == "min":
        return "{%d,}" % e[2]
    if k == "max":
        return "{,%d}" % e[2]
    if k == "minmax":
        return "{%d,%d}" % (e[2], e[3])
    raise ValueError(k)


def pr(e, ctx: int = 0) -> str:
    """Conservative printer.

    Levels: alt 1 < seq 2 < prefix/tag 3 < postfix 4 < atom 5; `ctx` is the level the context requires.
    """
    k = e[0]

    def wrap(s: str, lvl: int) -> str:
        return "(" + s + ")" if lvl < ctx else s

    if k == "str":
        return esc_string(e[1])
    if k == "ci":
        return "^" + esc_string(e[1])
    if k == "range":
        return esc_char(e[1]) + ".." + esc_char(e[2])
    if k == "id":
        return e[1]
    if k == "seq":
        return wrap(" ~ ".join(pr(x, 3) for x in e[1]), 2)
    if k == "alt":
        return wrap(" | ".join(pr(x, 2) for x in e[1]), 1)
    if k in POSTFIX:
        return wrap(pr(e[1], 5) + _suffix(e), 4)
    if k in PREFIX:
        sym = "&" if k == "and" else "!"
        inner = e[1]
        # never chain prefix operators without parentheses (G10)
        s = "(" + pr(inner, 0) + ")" if inner[0] in PREFIX else pr(inner, 4)
        return wrap(sym + s, 3)
    if k == "push":
        return "PUSH(" + pr(e[1], 0) + ")"
    if k == "pushlit":
        return "PUSH_LITERAL(" + esc_string(e[1]) + ")"
    if k == "slice":
        return "PEEK[%s..%s]" % ("" if e[1] is None else e[1], "" if e[2] is None else e[2])
    if k == "grp":
        return "(" + pr(e[1], 0) + ")"
    if k == "tag":
        inner = e[2]
        base = inner
        while base[0] in POSTFIX:
            base = base[1]
        if base[0] in ("id", "grp"):
            # `#tag = node postfix*` is one term in pest's meta-grammar
            s = pr(inner, 4)
        else:
            s = "(" + pr(inner, 0) + ")"
        return wrap("#" + e[1] + " = " + s, 3)
    raise ValueError(k)


def grammar_text(rules) -> str:
    return "\n".join("%s = %s{ %s }" % (n, m, pr(e)) for n, m, e in rules) + "\n"
