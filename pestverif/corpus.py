"""Facts about bundled grammars (via the meta-grammar oracle) and access to the committed corpus."""

from __future__ import annotations

import json
import os

from pestverif.meta import grammar_facts  # noqa: F401  (re-export)
from pestverif.runner import ROOT


def index() -> list[dict]:
    with open(os.path.join(ROOT, "corpus", "index.json"), encoding="utf-8") as fh:
        return json.load(fh)
