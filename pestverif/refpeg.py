"""Reference PEG semantics for pest grammars (DESIGN section 3).

A pure functional evaluator: position, stack and atomicity flow down as immutable values, results flow up.
Nothing is mutated, so a failed alternative "leaves no trace" by construction.

Result of `Ref.call/ev`: FAIL (None) or (pos, stack, pairs) with pairs a tuple of (rule, start, end, children).
"""

from __future__ import annotations

import sys
import unicodedata
from collections import Counter

sys.setrecursionlimit(max(sys.getrecursionlimit(), 20000))


class Unspecified(Exception):
    """The statements do not define the behaviour of this case (DESIGN G1)."""


class Budget(Exception):
    """Reference step budget exhausted (exponential backtracking): case discarded."""


ASCII = {
    "ASCII_DIGIT": lambda c: "0" <= c <= "9",
    "ASCII_NONZERO_DIGIT": lambda c: "1" <= c <= "9",
    "ASCII_BIN_DIGIT": lambda c: c in "01",
    "ASCII_OCT_DIGIT": lambda c: "0" <= c <= "7",
    "ASCII_HEX_DIGIT": lambda c: c in "0123456789abcdefABCDEF",
    "ASCII_ALPHA_LOWER": lambda c: "a" <= c <= "z",
    "ASCII_ALPHA_UPPER": lambda c: "A" <= c <= "Z",
    "ASCII_ALPHA": lambda c: "a" <= c <= "z" or "A" <= c <= "Z",
    "ASCII_ALPHANUMERIC": lambda c: "a" <= c <= "z" or "A" <= c <= "Z" or "0" <= c <= "9",
    "ASCII": lambda c: ord(c) < 128,
}
UNICODE = {
    "LETTER": lambda c: unicodedata.category(c).startswith("L"),
    "UPPERCASE_LETTER": lambda c: unicodedata.category(c) == "Lu",
    "LOWERCASE_LETTER": lambda c: unicodedata.category(c) == "Ll",
    "NUMBER": lambda c: unicodedata.category(c).startswith("N"),
    "DECIMAL_NUMBER": lambda c: unicodedata.category(c) == "Nd",
}
N, C, A = "N", "C", "A"
FAIL = None


class Ref:
    def __init__(self, rules, text, budget=1_000_000):
        # rules: name -> (modifier, expr)
        self.rules = rules
        self.t = text
        self.steps = 0
        self.budget = budget
        self.stats: Counter = Counter()
        self.prog = 0  # successful consuming terminal matches so far
        self.stackprog = 0  # successful stack changes so far

    def tick(self):
        self.steps += 1
        if self.steps > self.budget:
            raise Budget()

    # ------------------------------------------------------------------ trivia
    def skip(self, pos, stack, atom, look):
        if atom != N:
            return pos, ()
        ws = "WHITESPACE" in self.rules
        cm = "COMMENT" in self.rules
        if not ws and not cm:
            return pos, ()
        out = []
        while True:
            self.tick()
            r = FAIL
            if ws:
                r = self.call("WHITESPACE", pos, stack, atom, look)
            if r is FAIL and cm:
                r = self.call("COMMENT", pos, stack, atom, look)
            if r is FAIL:
                break
            if r[0] == pos:
                raise Unspecified("nullable trivia")
            if r[1] != stack:
                raise Unspecified("trivia changes the stack")
            pos = r[0]
            out.extend(r[2])
            self.stats["trivia_skipped"] += 1
        return pos, tuple(out)

    # ------------------------------------------------------------------ rules
    def call(self, name, pos, stack, atom, look):
        self.tick()
        t = self.t
        if name in self.rules:
            mod, body = self.rules[name]
            if name in ("WHITESPACE", "COMMENT"):
                if mod not in ("", "_"):
                    raise Unspecified("trivia rule with atomicity modifier")
                emit = (mod != "_") and atom != A and not look
                inner = A
            elif mod == "":
                emit = atom != A and not look
                inner = atom
            elif mod == "_":
                emit = False
                inner = atom
            elif mod == "@":
                emit = atom != A and not look
                inner = A
                self.stats["entered_atomic"] += 1
            elif mod == "$":
                emit = not look
                inner = C
                self.stats["entered_atomic"] += 1
            elif mod == "!":
                emit = not look
                inner = N
                self.stats["entered_atomic"] += 1
            else:
                raise ValueError(mod)
            if look:
                self.stats["rule_in_predicate"] += 1
            r = self.ev(body, pos, stack, inner, look)
            if r is FAIL:
                return FAIL
            if emit:
                return (r[0], r[1], ((name, pos, r[0], r[2]),))
            return r
        if name == "ANY":
            if pos < len(t):
                self.prog += 1
                return (pos + 1, stack, ())
            return FAIL
        if name == "SOI":
            return (pos, stack, ()) if pos == 0 else FAIL
        if name == "EOI":
            if pos != len(t):
                return FAIL
            emit = atom != A and not look
            return (pos, stack, (("EOI", pos, pos, ()),) if emit else ())
        if name == "NEWLINE":
            for s in ("\n", "\r\n", "\r"):
                if t.startswith(s, pos):
                    self.prog += 1
                    return (pos + len(s), stack, ())
            return FAIL
        if name in ASCII or name in UNICODE:
            pred = ASCII.get(name) or UNICODE[name]
            if pos < len(t) and pred(t[pos]):
                self.prog += 1
                return (pos + 1, stack, ())
            return FAIL
        if name == "PEEK":
            self.stats["stack_op"] += 1
            if not stack:
                self.stats["empty_stack_op"] += 1
                return FAIL
            return (pos + len(stack[-1]), stack, ()) if t.startswith(stack[-1], pos) else FAIL
        if name == "POP":
            self.stats["stack_op"] += 1
            if not stack:
                self.stats["empty_stack_op"] += 1
                return FAIL
            if t.startswith(stack[-1], pos):
                self.prog += 1
                self.stackprog += 1
                return (pos + len(stack[-1]), stack[:-1], ())
            return FAIL
        if name == "DROP":
            self.stats["stack_op"] += 1
            if not stack:
                self.stats["empty_stack_op"] += 1
                return FAIL
            self.prog += 1
            self.stackprog += 1
            return (pos, stack[:-1], ())
        if name in ("PEEK_ALL", "POP_ALL"):
            self.stats["stack_op"] += 1
            if not stack:
                self.stats["empty_stack_op"] += 1
            p = pos
            for s in reversed(stack):
                if not t.startswith(s, p):
                    return FAIL
                p += len(s)
            if name == "POP_ALL" and stack:
                self.prog += 1
                self.stackprog += 1
            return (p, stack if name == "PEEK_ALL" else (), ())
        raise Unspecified("unknown rule " + name)

    # ------------------------------------------------------------------ operators
    def seq(self, items, pos, stack, atom, look):
        pairs = []
        first = True
        for e in items:
            if not first:
                pos, tp = self.skip(pos, stack, atom, look)
                pairs.extend(tp)
            first = False
            r = self.ev(e, pos, stack, atom, look)
            if r is FAIL:
                return FAIL
            pos, stack = r[0], r[1]
            pairs.extend(r[2])
        return (pos, stack, tuple(pairs))

    def star(self, e, pos, stack, atom, look):
        r = self.ev_tracked(e, pos, stack, atom, look)
        if r is FAIL:
            return (pos, stack, ())
        if r[0] == pos:
            raise Unspecified("repetition without progress")
        pairs = list(r[2])
        pos, stack = r[0], r[1]
        while True:
            self.tick()
            p2, tp = self.skip(pos, stack, atom, look)
            r = self.ev_tracked(e, p2, stack, atom, look)
            if r is FAIL:
                if p2 != pos:
                    self.stats["trailing_trivia_given_back"] += 1
                break
            if r[0] == p2:
                raise Unspecified("repetition without progress")
            pairs.extend(tp)
            pairs.extend(r[2])
            pos, stack = r[0], r[1]
        return (pos, stack, tuple(pairs))

    def ev(self, e, pos, stack, atom, look):
        self.tick()
        t = self.t
        k = e[0]
        if k == "str":
            if t.startswith(e[1], pos):
                self.prog += 1 if e[1] else 0
                return (pos + len(e[1]), stack, ())
            return FAIL
        if k == "ci":
            # pest: ASCII letters are compared ignoring case, everything else exactly
            s = e[1]
            seg = t[pos : pos + len(s)]
            if len(seg) == len(s) and all(
                a == b or (a.isascii() and b.isascii() and a.isalpha() and a.lower() == b.lower()) for a, b in zip(s, seg)
            ):
                self.prog += 1 if s else 0
                return (pos + len(s), stack, ())
            return FAIL
        if k == "range":
            if e[1] > e[2]:
                raise Unspecified("reversed range")
            if pos < len(t) and e[1] <= t[pos] <= e[2]:
                self.prog += 1
                return (pos + 1, stack, ())
            return FAIL
        if k == "id":
            return self.call(e[1], pos, stack, atom, look)
        if k == "seq":
            return self.seq(e[1], pos, stack, atom, look)
        if k == "alt":
            for i, a in enumerate(e[1]):
                r = self.ev_tracked(a, pos, stack, atom, look)
                if r is not FAIL:
                    return r
            return FAIL
        if k == "opt":
            r = self.ev_tracked(e[1], pos, stack, atom, look)
            return r if r is not FAIL else (pos, stack, ())
        if k == "star":
            return self.star(e[1], pos, stack, atom, look)
        if k == "plus":
            return self.seq((e[1], ("star", e[1])), pos, stack, atom, look)
        if k == "exact":
            if e[2] == 0:
                raise Unspecified("{0}")
            return self.seq((e[1],) * e[2], pos, stack, atom, look)
        if k == "min":
            return self.seq((e[1],) * e[2] + (("star", e[1]),), pos, stack, atom, look)
        if k == "max":
            if e[2] == 0:
                raise Unspecified("{,0}")
            return self.seq((("opt", e[1]),) * e[2], pos, stack, atom, look)
        if k == "minmax":
            if e[3] < e[2] or e[3] == 0:
                raise Unspecified("bad {m,n}")
            return self.seq((e[1],) * e[2] + (("opt", e[1]),) * (e[3] - e[2]), pos, stack, atom, look)
        if k == "and":
            self.stats["predicate"] += 1
            s0 = self.stackprog
            r = self.ev(e[1], pos, stack, atom, True)
            if self.stackprog > s0:
                self.stats["stack_change_undone"] += 1
            return (pos, stack, ()) if r is not FAIL else FAIL
        if k == "not":
            self.stats["predicate"] += 1
            s0 = self.stackprog
            r = self.ev(e[1], pos, stack, atom, True)
            if self.stackprog > s0:
                self.stats["stack_change_undone"] += 1
            return (pos, stack, ()) if r is FAIL else FAIL
        if k == "push":
            r = self.ev(e[1], pos, stack, atom, look)
            if r is FAIL:
                return FAIL
            self.stats["stack_op"] += 1
            self.prog += 1
            self.stackprog += 1
            return (r[0], r[1] + (t[pos : r[0]],), r[2])
        if k == "pushlit":
            self.stats["stack_op"] += 1
            self.prog += 1
            self.stackprog += 1
            return (pos, stack + (e[1],), ())
        if k == "slice":
            self.stats["stack_op"] += 1
            n = len(stack)

            def norm(i):
                if i > n:
                    raise Unspecified("slice out of range")
                if i >= 0:
                    return i
                if n + i < 0:
                    raise Unspecified("slice out of range")
                return n + i

            a = norm(e[1] if e[1] is not None else 0)
            b = norm(e[2]) if e[2] is not None else n
            if a > b:
                raise Unspecified("slice start after end")
            p = pos
            for s in stack[a:b]:
                if not t.startswith(s, p):
                    return FAIL
                p += len(s)
            return (p, stack, ())
        if k == "grp":
            return self.ev(e[1], pos, stack, atom, look)
        if k == "tag":
            return self.ev(e[2], pos, stack, atom, look)
        raise ValueError(k)

    def ev_tracked(self, e, pos, stack, atom, look):
        """Evaluate a backtracking point; count failed attempts that had consumed input / changed the stack."""
        c0, s0 = self.prog, self.stackprog
        r = self.ev(e, pos, stack, atom, look)
        if r is FAIL:
            if self.prog > c0:
                self.stats["backtrack_after_progress"] += 1
            if self.stackprog > s0:
                self.stats["stack_change_undone"] += 1
        return r


def parse(rules, rule, text, start_pos=0, budget=1_000_000):
    """Returns (outcome, stats): outcome is ('fail',) or ('ok', pairs)."""
    r = Ref(rules, text, budget=budget)
    res = r.call(rule, start_pos, (), N, False)
    if res is FAIL:
        return ("fail",), r.stats
    return ("ok", res[2]), r.stats
