"""Bounded deterministic delta debugging (DESIGN G8)."""

from __future__ import annotations


def ddmin_list(items: list, fails, max_evals: int = 400) -> list:
    """Remove chunks of `items` while `fails(items)` stays true."""
    evals = 0
    n = 2
    items = list(items)
    while len(items) >= 2 and evals < max_evals:
        chunk = max(1, len(items) // n)
        removed = False
        i = 0
        while i < len(items) and evals < max_evals:
            cand = items[:i] + items[i + chunk :]
            evals += 1
            if cand and fails(cand):
                items = cand
                removed = True
                n = max(n - 1, 2)
            else:
                i += chunk
        if not removed:
            if chunk == 1:
                break
            n = min(len(items), n * 2)
    return items


def ddmin_str(text: str, fails, max_evals: int = 200) -> str:
    return "".join(ddmin_list(list(text), lambda cs: fails("".join(cs)), max_evals)) if text else text
