"""Coverage-guided supplement to C11 (thorough tier): an Atheris / libFuzzer target around Parser.from_grammar.

Run as `python -m pestverif.fuzz_c11 <libFuzzer flags> <corpus dir>` with PESTVERIF_FUZZ_OUT=<file>. The target
never raises: every text whose outcome is not plainly fine (a Parser, or a PestGrammarError that renders and
points into the text) is appended to PESTVERIF_FUZZ_OUT as a JSON line, so the campaign continues past the first
finding; the C11 driver re-evaluates those texts through its normal pipeline (fresh worker, step budget, judge,
shrinking) - this module is only the search engine, not the oracle of record.
"""

from __future__ import annotations

import json
import os
import sys

ROOT = os.path.dirname(os.path.dirname(os.path.abspath(__file__)))
sys.path.insert(0, os.path.join(ROOT, ".deps"))

import atheris  # noqa: E402

with atheris.instrument_imports(include=["pest"]):
    import pest  # noqa: E402

from pestverif.props import c11  # noqa: E402

OUT = os.environ.get("PESTVERIF_FUZZ_OUT", "")
MAX_RECORDS = 300
_state = {"n": 0, "records": 0, "seen": set(), "excluded": 0}


def record(text: str, why: str) -> None:
    key = why[:60]
    if _state["records"] >= MAX_RECORDS or (key in _state["seen"] and _state["records"] > 40):
        return
    _state["seen"].add(key)
    _state["records"] += 1
    if OUT:
        with open(OUT, "a", encoding="utf-8") as fh:
            fh.write(json.dumps({"text": text, "why": why}) + "\n")


def one_input(data: bytes) -> None:
    try:
        text = data.decode("utf-8", "surrogatepass")
    except UnicodeDecodeError:
        return
    if c11.unroll_cost(text) > c11.K05_ATTRIBUTE:
        # known finding K05 (repetition counts are unrolled eagerly: memory and time proportional to the count):
        # excluded by construction so that the campaign is not ended by libFuzzer's memory limit
        _state["excluded"] += 1
        return
    _state["n"] += 1
    if OUT and _state["n"] % 2000 == 0:
        with open(OUT + ".count", "w", encoding="utf-8") as fh:
            fh.write(f'{_state["n"]} {_state["excluded"]}')
    for optimized in (True, False):
        try:
            if optimized:
                pest.Parser.from_grammar(text)
            else:
                pest.Parser.from_grammar(text, optimizer=None)
        except pest.PestGrammarError as err:
            problems = c11.check_error(err, text)
            if problems:
                record(text, "error-report:" + problems[0])
        except RecursionError:
            if sum(text.count(c) for c in c11.NESTING_CHARS) < c11.MIN_NESTING:
                record(text, "RecursionError")
        except Exception as err:  # noqa: BLE001
            record(text, type(err).__name__)


def main() -> None:
    atheris.Setup(sys.argv, one_input)
    atheris.Fuzz()


if __name__ == "__main__":
    main()
