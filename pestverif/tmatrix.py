"""Deterministic small-scope matrices shared by C02 and C04 (random generation reaches these shapes too rarely).

* trivia configurations: every combination of a WHITESPACE definition (absent / each body of ggen.WS_BODIES,
  silent or not) and a COMMENT definition (absent / each body of ggen.COMMENT_BODIES, silent or not) around a
  fixed set of main rules that use every rule modifier, with inputs that carry one or two pieces of trivia in
  every gap of five base strings;
* modifier chains: every assignment of the five rule modifiers ("", _, @, $, !) to a chain of 2..4 rules calling
  each other, each level with its own gaps, with inputs that put trivia into every subset of the levels.

Everything here is enumeration: no random choice is made.
"""

from __future__ import annotations

import itertools

from pestverif.ggen import COMMENT_BODIES, WS_BODIES

MODS = ["", "_", "@", "$", "!"]

MAIN_RULES = [
    ("r0", "", ("seq", (("str", "a"), ("star", ("id", "r1")), ("opt", ("str", "c"))))),
    ("r1", "", ("str", "b")),
    ("r2", "@", ("seq", (("str", "a"), ("id", "r1"), ("opt", ("id", "r3"))))),
    ("r3", "!", ("seq", (("str", "b"), ("opt", ("str", "c"))))),
    ("r4", "$", ("seq", (("str", "a"), ("plus", ("id", "r1")), ("opt", ("id", "r3"))))),
    ("r5", "_", ("seq", (("str", "a"), ("exact", ("str", "b"), 2), ("id", "EOI")))),
    ("r6", "", ("seq", (("id", "SOI"), ("min", ("id", "r1"), 1), ("id", "EOI")))),
    # skip-until shapes (what the optimizer's skip pass rewrites where no implicit trivia can occur)
    ("r7", "", ("seq", (("str", "a"), ("star", ("grp", ("seq", (("not", ("str", "c")), ("id", "ANY"))))), ("opt", ("str", "c"))))),
    ("r8", "@", ("seq", (("str", "a"), ("id", "r9")))),
    ("r9", "!", ("seq", (("star", ("grp", ("seq", (("not", ("grp", ("alt", (("str", "c"), ("str", "bc"))))), ("id", "ANY"))))), ("opt", ("id", "r1"))))),
    # bounded repetitions that may match nothing, evaluated where trivia has not been skipped yet (start of the
    # rule): e{0,n} and e{,n} must place trivia exactly as e? ~ e? ~ ... does
    ("r10", "", ("seq", (("minmax", ("str", "a"), 0, 2), ("opt", ("id", "r1"))))),
    ("r11", "", ("seq", (("max", ("str", "a"), 2), ("minmax", ("id", "r1"), 1, 2)))),
]
MAIN_STARTS = ["r0", "r2", "r4", "r5", "r6", "r7", "r8", "r10", "r11"]
BASES = ["a", "ab", "abb", "abbc", "abc", "bb"]
WS_PIECES = {
    ("str", " "): [" "],
    ("alt", (("str", " "), ("str", "\t"))): [" ", "\t", " \t"],
    ("alt", (("str", " "), ("str", "\n"))): [" ", "\n"],
    ("range", " ", " "): [" "],
    ("id", "ws__"): [" ", "\t"],
    ("seq", (("str", " "), ("str", "\t"))): [" \t", " "],
    ("seq", (("str", " "), ("opt", ("str", "\t")))): [" ", " \t", "\t"],
    ("alt", (("str", " "), ("str", "\t"), ("id", "NEWLINE"))): [" ", "\n", "\r\n", "\r"],
}
CM_PIECES = ["#", "# #"], ["/**/", "/*x*/", "/*"], ["#", "#x", "#x\n"], ["<ab>", "<>", "<a"], ["/*c*/", "/**/", "/*"], [" #", "#", " "]


def _uniq(xs):
    out = []
    for x in xs:
        if x not in out:
            out.append(x)
    return out


def trivia_configs():
    """[(label, [extra rules], ws pieces, comment pieces)]"""
    ws_opts = [None] + [(m, b) for b in _uniq(WS_BODIES) for m in ("_", "")]
    cm_opts = [None] + [(m, b) for b in COMMENT_BODIES for m in ("_", "")]
    assert len(CM_PIECES) == len(COMMENT_BODIES) and all(b in WS_PIECES for b in WS_BODIES)
    out = []
    for i, ws in enumerate(ws_opts):
        for j, cm in enumerate(cm_opts):
            if ws is None and cm is None:
                continue
            extra = []
            if ws is not None:
                extra.append(("WHITESPACE", ws[0], ws[1]))
                if ws[1] == ("id", "ws__"):
                    extra.append(("ws__", "_", ("alt", (("str", " "), ("str", "\t")))))
            if cm is not None:
                extra.append(("COMMENT", cm[0], cm[1]))
            wp = WS_PIECES[ws[1]] if ws else [" "]
            cp = CM_PIECES[COMMENT_BODIES.index(cm[1])] if cm else ["#"]
            out.append((f"ws{i}-cm{j}", extra, wp, cp))
    return out


def trivia_inputs(wp, cp, tier):
    """Inputs for one trivia configuration: every base with each piece of trivia in each gap (one gap at a
    time), and doubled pieces / whitespace-comment pairs in the middle gap and at the end."""
    pool = _uniq(wp + cp)
    out = []

    def add(s):
        if s not in out:
            out.append(s)

    bases = BASES if tier != "quick" else BASES[1:4]
    for b in bases:
        add(b)
        for gap in range(len(b) + 1):
            for t in pool:
                add(b[:gap] + t + b[gap:])
        for gap in sorted({(len(b) + 1) // 2, len(b)}):
            for t in pool:
                add(b[:gap] + t + t + b[gap:])
            for w in wp:
                for c in cp:
                    add(b[:gap] + w + c + b[gap:])
                    add(b[:gap] + c + w + b[gap:])
                    add(b[:gap] + w + c + w + b[gap:])
    return out


def trivia_cases(tier: str):
    """[(label, rules, calls)] - the trivia-configuration matrix."""
    out = []
    for label, extra, wp, cp in trivia_configs():
        rules = MAIN_RULES + extra
        inputs = trivia_inputs(wp, cp, tier)
        calls = [(s, inp, 0) for inp in inputs for s in MAIN_STARTS]
        out.append((label, rules, calls))
    return out


CHAIN_TRIVIA = [
    ("ws", [("WHITESPACE", "_", ("str", " "))], [" "]),
    ("cm", [("COMMENT", "", ("str", "#"))], ["#"]),
    ("both", [("WHITESPACE", "_", ("str", " ")), ("COMMENT", "", ("str", "#"))], [" ", "#"]),
]


def chain_cases(tier: str):
    """[(label, rules, calls)] - the modifier-chain matrix.

    c0 = m0{ "x" ~ c1 ~ "y" } ... c(k-1) = m(k-1){ "a" ~ l ~ "b"* } ; l = { "l" }   (the leaf produces a pair, so
    that hiding inside @ is visible). Inputs: for every subset of the levels, trivia in all gaps of exactly those
    levels.
    """
    lengths = (2, 3) if tier == "quick" else (2, 3, 4)
    out = []
    for n in lengths:
        for mods in itertools.product(MODS, repeat=n):
            for tlabel, extra, pieces in CHAIN_TRIVIA:
                rules = []
                for i in range(n):
                    if i < n - 1:
                        body = ("seq", (("str", "x"), ("id", f"c{i + 1}"), ("str", "y")))
                    else:
                        body = ("seq", (("str", "a"), ("id", "l"), ("star", ("str", "b"))))
                    rules.append((f"c{i}", mods[i], body))
                rules.append(("l", "", ("str", "l")))
                rules += extra
                inputs = []
                for t in pieces:
                    for subset in itertools.product((False, True), repeat=n):
                        def level(i, t=t, subset=subset):
                            g = t if subset[i] else ""
                            if i == n - 1:
                                return "a" + g + "l" + g + "b" + g + "b"
                            return "x" + g + level(i + 1) + g + "y"

                        s = level(0)
                        if s not in inputs:
                            inputs.append(s)
                calls = [("c0", s, 0) for s in inputs]
                out.append((f"chain-{'/'.join(m or '.' for m in mods)}-{tlabel}", rules, calls))
    return out
