"""Free-layout printer: AST -> valid pest v2 text with randomised (but meaning-preserving) layout.

Everything the meta-grammar allows is used: trivia (blanks, newlines, line and nested block comments) between
the elements of non-atomic meta-rules and never inside atomic ones, stacked postfix operators and prefix
chains without parentheses, redundant parentheses, a leading `|`, every escape spelling, one-letter tags,
doc comments. The printed text denotes exactly the given AST (modulo untagged parentheses).
"""

from __future__ import annotations

from pestverif.gast import POSTFIX, PREFIX


class Free:
    def __init__(self, rng, calm=False):
        self.r = rng
        self.calm = calm  # calm: only blanks as trivia (used for prefix/mutation corpora of C11)

    # ------------------------------------------------------------------ trivia / tokens
    def sp(self, must=False) -> str:
        r = self.r
        x = r.random()
        if x < 0.45 and not must:
            return ""
        if x < 0.8 or self.calm:
            return r.choice([" ", " ", "  ", "\t", "\n", " \n  "])
        return r.choice([" /* c */ ", "/**/", " /* a /* nested */ b */ ", " // line comment\n", "//\n", " /* * / */ "])

    def u(self, cp: int) -> str:
        r = self.r
        h = "%X" % cp
        digits = r.randint(max(2, len(h)), 6)
        s = h.rjust(digits, "0")
        if r.random() < 0.5:
            s = s.lower()
        return "\\u{" + s + "}"

    def esc_char(self, c: str, quote: str) -> str:
        """One character inside a string (quote = '"') or character (quote = "'") literal."""
        r = self.r
        simple = {"\n": "\\n", "\r": "\\r", "\t": "\\t", "\0": "\\0", "\\": "\\\\", '"': '\\"', "'": "\\'"}
        must_escape = c in ('"', "\\") if quote == '"' else c in ("\\",)
        if quote == "'" and c == "'":
            must_escape = True
        opts = []
        if not must_escape:
            opts += ["raw"] * 4
        if c in simple:
            opts += ["simple"] * 3
        if ord(c) < 256:
            opts.append("x")
        if not 0xD800 <= ord(c) < 0xE000:
            opts.append("u")
        if not opts:
            opts = ["raw"]
        k = r.choice(opts)
        if k == "raw":
            return c
        if k == "simple":
            return simple[c]
        if k == "x":
            return ("\\x%02X" if r.random() < 0.5 else "\\x%02x") % ord(c)
        return self.u(ord(c))

    def string(self, s: str) -> str:
        return '"' + "".join(self.esc_char(c, '"') for c in s) + '"'

    def char(self, c: str) -> str:
        return "'" + self.esc_char(c, "'") + "'"

    def suffix(self, e) -> str:
        sp = self.sp
        k = e[0]
        if k == "opt":
            return "?"
        if k == "star":
            return "*"
        if k == "plus":
            return "+"
        if k == "exact":
            return "{" + sp() + str(e[2]) + sp() + "}"
        if k == "min":
            return "{" + sp() + str(e[2]) + sp() + "," + sp() + "}"
        if k == "max":
            return "{" + sp() + "," + sp() + str(e[2]) + sp() + "}"
        if k == "minmax":
            return "{" + sp() + str(e[2]) + sp() + "," + sp() + str(e[3]) + sp() + "}"
        raise ValueError(k)

    # ------------------------------------------------------------------ expressions
    def paren(self, e) -> str:
        return "(" + self.sp() + self.expr(e) + self.sp() + ")"

    def expr(self, e) -> str:
        """expression level: alt of seqs of terms."""
        r = self.r
        lead = ("|" + self.sp()) if r.random() < 0.08 else ""
        if e[0] == "alt":
            return lead + (self.sp() + "|" + self.sp()).join(self.seq(x) for x in e[1])
        return lead + self.seq(e)

    def seq(self, e) -> str:
        if e[0] == "seq":
            return (self.sp() + "~" + self.sp()).join(self.term(x) for x in e[1])
        if e[0] == "alt":
            return self.paren(e)
        return self.term(e)

    def term(self, e) -> str:
        """term level: tag? prefix* node postfix*"""
        if e[0] in ("seq", "alt"):
            return self.paren(e)
        if e[0] == "tag":
            inner = e[2]
            body = self.paren(inner) if inner[0] in ("seq", "alt", "tag") else self.untagged_term(inner)
            return "#" + e[1] + self.sp() + "=" + self.sp() + body
        return self.untagged_term(e)

    def untagged_term(self, e) -> str:
        prefixes = []
        while e[0] in PREFIX:
            prefixes.append("&" if e[0] == "and" else "!")
            e = e[1]
        out = "".join(p + self.sp() for p in prefixes)
        return out + self.postfixed(e)

    def postfixed(self, e) -> str:
        """node postfix* (no prefix operators at this level)."""
        sufs = []
        while e[0] in POSTFIX:
            sufs.append(self.suffix(e))
            e = e[1]
        node = self.node(e)
        return node + "".join(self.sp() + s for s in reversed(sufs))

    def node(self, e) -> str:
        r = self.r
        k = e[0]
        if k in PREFIX or k in ("seq", "alt", "tag") or k in POSTFIX:
            return self.paren(e)
        if k == "grp":
            return self.paren(e[1])
        if r.random() < 0.05:
            return self.paren(e)  # redundant parentheses
        if k == "str":
            return self.string(e[1])
        if k == "ci":
            return "^" + self.sp() + self.string(e[1])
        if k == "range":
            return self.char(e[1]) + self.sp() + ".." + self.sp() + self.char(e[2])
        if k == "id":
            return e[1]
        if k == "push":
            return "PUSH" + self.sp() + "(" + self.sp() + self.expr(e[1]) + self.sp() + ")"
        if k == "pushlit":
            return "PUSH_LITERAL" + self.sp() + "(" + self.sp() + self.string(e[1]) + self.sp() + ")"
        if k == "slice":
            def num(v):
                if v is None:
                    return ""
                if v == 0:
                    return r.choice(["0", "0", "00"])
                z = r.choice(["", "", "0", "00"])
                return ("-" + z + str(-v)) if v < 0 else (z + str(v))

            a, b = num(e[1]), num(e[2])
            return "PEEK" + self.sp() + "[" + self.sp() + a + self.sp() + ".." + self.sp() + b + self.sp() + "]"
        raise ValueError(k)

    def rule(self, name, mod, e, docs=()) -> str:
        out = ""
        for d in docs:
            out += "///" + d + "\n"
        return (out + name + self.sp() + "=" + self.sp() + mod + self.sp() + "{" + self.sp() + self.expr(e)
                + self.sp() + "}")

    def grammar(self, rules, gdocs=(), rdocs=None, trailing_docs=()) -> str:
        out = ""
        for d in gdocs:
            out += "//!" + d + "\n"
        parts = []
        for i, (n, m, e) in enumerate(rules):
            parts.append(self.rule(n, m, e, (rdocs or {}).get(n, ())))
        out += (self.sp() or "\n").join(parts) if parts else ""
        if not out.endswith("\n"):
            out += self.r.choice(["\n", "", " "])
        for d in trailing_docs:
            if not out.endswith("\n") and out:
                out += "\n"
            out += "///" + d + "\n"
        return out


def print_free(rng, rules, **kw) -> str:
    sep_safe = Free(rng)
    text = sep_safe.grammar(rules, **kw)
    return text
