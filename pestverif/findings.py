"""Known-finding preconditions (DESIGN 5.2).

An open finding may carry `exclude`: a *syntactic* precondition on generated cases, evaluated before a case is
run. Matching cases are not evaluated in the listed modes and are counted (`excluded_known:<id>:<mode>`).
The precondition never looks at whether the case fails, so any violation outside it is still reported.

exclude = {"modes": [...], "all": [feature, ...], "any": [feature, ...]}
Features of a grammar: node kinds ("star", "push", ...), built-in names used ("PEEK_ALL", ...), "mod@" etc.,
"def:WHITESPACE", "def:COMMENT", "trivia:none|ws|comment|both", "nonsilent:WHITESPACE", ...
"""

from __future__ import annotations

from pestverif import gast
from pestverif.runner import open_findings


def features(rules) -> set[str]:
    f = gast.kinds(rules)
    names = {n for n, _, _ in rules}
    for n in names:
        if n in ("WHITESPACE", "COMMENT"):
            f.add("def:" + n)
    ws, cm = "WHITESPACE" in names, "COMMENT" in names
    f.add("trivia:" + ("both" if ws and cm else "ws" if ws else "comment" if cm else "none"))
    for n, m, _ in rules:
        if n in ("WHITESPACE", "COMMENT") and m != "_":
            f.add("nonsilent:" + n)
    return f


def excluder(prop: str):
    specs = [(f["id"], f["exclude"]) for f in open_findings(prop) if f.get("exclude")]
    if not specs:
        return None

    def excluded(rules, mode):
        feats = None
        for fid, spec in specs:
            if "modes" in spec and mode not in spec["modes"]:
                continue
            if feats is None:
                feats = features(rules)
            if all(x in feats for x in spec.get("all", [])) and (
                not spec.get("any") or any(x in feats for x in spec["any"])
            ):
                return fid
        return None

    return excluded
