"""Case generation shared by C01 / C06 / C07 / C13 / C16: a well-formed grammar of profile `full` (or a
variant), its start rules, labelled inputs and the grammar facts the in-worker predicates need."""

from __future__ import annotations

from pestverif import ganalysis, gast, ggen, gprint
from pestverif.gast import BUILTIN_IDS


def grammar_info(rules) -> dict:
    names = [n for n, _, _ in rules]
    silent = [n for n, m, _ in rules if m == "_"]
    tags = sorted({n[1] for _, _, e in rules for n in gast.walk(e) if n[0] == "tag"})
    return {
        "names": [n for n in names if n not in silent] + ["EOI"],
        "silent": silent,
        "tags": tags,
        "rule_names": names,
    }


def labelled_inputs(rng, rules, starts, n=8, maxlen=14):
    """[(text, label)] with label in empty / derivation / prefix / mutation / random."""
    alpha = ggen.alphabet_of(rules) + "~"
    out = [("", "empty")]
    seen = {""}

    def add(s, label):
        s = s[:maxlen]
        if s not in seen:
            seen.add(s)
            out.append((s, label))

    tries = 0
    while len(out) < n and tries < 6 * n:
        tries += 1
        x = rng.random()
        if x < 0.55 and starts:
            d = ggen.Deriver(rng, rules)
            s = d.der(("id", rng.choice(starts)), "N", 6)
            add(s, "derivation")
            if s and rng.random() < 0.5:
                add(s[: rng.randrange(len(s))], "prefix")
            if rng.random() < 0.4:
                add(ggen.mutate(rng, s, alpha), "mutation")
        elif x < 0.8:
            add("".join(rng.choice(alpha) for _ in range(rng.randint(1, 8))), "random")
        else:
            add(ggen.mutate(rng, rng.choice(out)[0], alpha), "mutation")
    return out[:n]


def draw(rng, profile="full", n_inputs=8, max_rules=5, maxlen=14):
    feats = set(ggen.PROFILES[profile])
    if profile in ("full", "soi-free") and rng.random() < 0.3:
        feats.add("bait")  # optimizer-bait shapes (skip-until, literal / character choices) in every check
    rules = ggen.Gen(rng, feats, max_rules=max_rules).grammar()
    probs = ganalysis.Analysis(rules).problems(BUILTIN_IDS)
    if probs:
        raise RuntimeError(f"generator produced an ill-formed grammar: {probs} {rules}")
    names = [n for n, _, _ in rules]
    main = [n for n in names if n.startswith("r")]
    inputs = labelled_inputs(rng, rules, main[:3], n_inputs, maxlen)
    return {
        "rules": rules,
        "text": gprint.grammar_text(rules),
        "names": names,
        "main": main,
        "inputs": inputs,
        "info": grammar_info(rules),
    }


def consumed_or_late_failure(outcome, start_pos) -> bool:
    """The C01 non-triviality rule: consumed >= 1 character or failed beyond start_pos."""
    if outcome[0] == "ok":
        def any_span(ps):
            return any(e > s or any_span(c) for _n, s, e, _t, c in ps)

        return any_span(outcome[1])
    if outcome[0] == "fail":
        return outcome[1] > start_pos
    return False


def make_case(case, rule, inp, k, mode, **extra):
    rules = case["rules"]
    return {
        "rules": gast.to_json([list(r) for r in rules]),
        "grammar_text": case["text"],
        "rule": rule,
        "input": inp,
        "start_pos": k,
        "mode": mode,
        **extra,
    }
