"""C11 - loading a grammar is total: a Parser or a renderable PestGrammarError."""

from __future__ import annotations

import os
import re

from pestverif.modes import WorkerDied
from pestverif.runner import Ctx

ID = "C11"
RULE = (
    "texts: every prefix (quick: every prefix of the small bundled grammars, stride for the large ones; "
    "thorough: every prefix of all 15) of the bundled grammars and of generated grammars in free layout; "
    "1,280 (quick) / 40,000 (thorough) whole generated grammars of the optimizer-bait and full profiles; "
    "single-character insert/delete/replace mutations of them; token soups over the grammar vocabulary; "
    "empty, blank and comment-only texts; texts ending inside a string, escape, comment, tag, PEEK[, "
    "repetition braces or rule; Hypothesis st.text() over all of Unicode (NUL, lone surrogates, astral); "
    "valid grammars with undefined rules, reversed ranges, out-of-range \\u{...}, huge numbers, lone surrogates, "
    "recursive stop rules, flat chains of 2,500 operands, the literal/escape matrix of C10; thorough tier: "
    "plus an Atheris campaign per shard (candidates and corpus re-judged here). Each text is loaded with "
    "optimizer=None and with the default optimizer (separate workers). Oracle: Parser.from_grammar returns "
    "a Parser or raises PestGrammarError within the step budget; str(error) renders; a token carried by the "
    "error lies within the text and the printed line:col names an existing line and a column within it "
    "(column base calibrated from the implementation). RecursionError on texts with >= 100 nesting characters "
    "(K04) and step-budget overruns on texts with an estimated unrolled size > 1e4 (K05) are counted only. "
    "Non-trivial: text of length >= 3 that loads or is rejected at an offset > 0; distinct by hash of (text, "
    "optimizer)."
)
ASSUMPTIONS = [
    "the column base is whatever the implementation prints for an error at offset 0; the position just past the "
    "last character of a line exists",
    "wall-clock time is never an oracle: worker time-outs are isolated, counted and not reported",
]
SIZES = {
    "quick": {"soups": 250, "texts": 150, "gen": 12, "mut": 2, "stride_big": 23, "whole": 80},
    "thorough": {"soups": 8000, "texts": 5000, "gen": 200, "mut": 40, "stride_big": 1, "whole": 2500},
}
_POS = re.compile(r"-> (-?\d+):(-?\d+)")

VOCAB = [
    "a", "b", "rule", "_x", "=", "{", "}", "(", ")", "[", "]", "~", "|", "?", "*", "+", "&", "!", "_", "@", "$",
    '"a"', '"', "'a'", "'", "..", "^", "^\"a\"", "#t", "#tag =", ",", "1", "0", "-1", "{2}", "{1,}", "{,2}", "{1,2}",
    "PUSH", "PUSH(", "PUSH_LITERAL(", "PEEK", "PEEK[", "PEEK_ALL", "POP", "POP_ALL", "DROP", "ANY", "SOI", "EOI",
    "//", "///", "//!", "/*", "*/", "\n", " ", "\t", "\\", "\\n", "\\u{", "\\x4", "\\u{41}", "\\u{110000}", "\\q",
    "WHITESPACE", "COMMENT", "ASCII_DIGIT", "é", "\0", "'z'..'a'", "'\\n'", "undefined_rule",
    "'\\'", "'\\'..'z'", "'\\\\'", "''", "'\\x4'", "'\\u{}'", "'a'..'\\'",
]
ENDINGS = [
    'a = { "abc', 'a = { "ab\\', "a = { 'a", "a = { 'a'..", "a = { 'a'..'", "a = { /* x", "a = { b /* /* */", "a = { #t",
    "a = { #tag", "a = { #tag =", "a = { PEEK[", "a = { PEEK[1", "a = { PEEK[1..", "a = { PEEK[..2", "a = { b{", "a = { b{1",
    "a = { b{1,", "a = { b{,", "a = {", "a = ", "a =", "a", "a = @", "a = { b ~", "a = { b |", "a = { (b", "a = { PUSH(",
    "a = { PUSH(b", "a = { PUSH_LITERAL(", 'a = { PUSH_LITERAL("x"', "a = { ^", 'a = { ^"x', "a = { !", "a = { &", "///",
    "/// doc", "//!", "//! doc", "//", "/*", "/* */", "   ", "\n\n", "", "a = { b } ///", "a = { b }\n/// trailing doc",
    "a = { b }\n//! late grammar doc", 'a = { "\\u{41" }', 'a = { "\\u{}" }', 'a = { "\\u{110000}" }', 'a = { "\\x4" }',
    'a = { "\\xZZ" }', "a = { 'z'..'a' }", "a = { '\\u{110000}'..'a' }", "a = { undefined }", "a = { a }", "a = { b* }\nb = { \"\"* }",
    "a = { PEEK[a..b] }", "a = { PEEK[1 .. 2] }", "a = { b{ 1 , 2 } }", "a = { \"\\0\" }", "a = { '\\'' }", "a = _ { b }",
    "a = { b{99999999999999999999} }", "a = { b{" + "9" * 4400 + "} }", "a = { PEEK[" + "1" * 4400 + "..] }", "a = { b{4294967296} }",
    "a = { (!b ~ ANY)* }\nb = { b | \"x\" }", "a = { (!b ~ ANY)* }\nb = { c }\nc = { b }", "/*a" * 40, "a = { b } " + "/*a" * 30,
    "a = { \"\\x\ud800\" }", "a = { \"\\u{\udc00}\" }", "a = { PEEK[-0..] }", "a = {\n", "a = { b }\n\n",
    "PUSH = { \"a\" }", "a = { PUSHX }", "a = { POPCORN ~ PEEKABOO ~ DROPS }", "a = { b?* }", "a = { !&b }", "a = { &&b }",
    "a = { #t = \"x\" }", "a = { #t=b }", "a = { b } a = { c }", "EOI = { \"x\" }", "a = { \"\n\" }",
]

# Large texts, loaded as they are (no prefixes): long flat chains must not need a stack frame per operand;
# deep nesting does (known finding K04) and is only counted.
BIG_TEXTS = [
    "a = { " + " | ".join(['"x"'] * 2500) + " }",
    "a = { " + " ~ ".join(["b"] * 2500) + " }\nb = { \"x\" }",
    "a = { " + " | ".join(['"x" ~ b ~ "z"'] * 900) + " }\nb = { \"y\" }",
    "a = { b" + "?" * 3000 + " }\nb = { \"y\" }",
    "\n".join(f"r{i} = {{ \"x\" }}" for i in range(1500)),
    "a = { " + "(" * 3000 + '"x"' + ")" * 3000 + " }",
    "a = { " + "!" * 6000 + '"x" }',
    "a = { " + "PUSH(" * 2500 + '"x"' + ")" * 2500 + " }",
    # flat grammars with long or wide chains of rule references under a skip-until shape
    "a = { (!r0 ~ ANY)* }\n" + "\n".join(f"r{i} = {{ r{i + 1} | r{i + 1} }}" for i in range(40)) + '\nr40 = { "x" }',
    "a = { (!r0 ~ ANY)* }\n" + "\n".join(f"r{i} = {{ r{i + 1} }}" for i in range(6000)) + '\nr6000 = { "x" }',
    "a = { r0 }\n" + "\n".join(f"r{i} = _{{ r{i + 1} }}" for i in range(6000)) + '\nr6000 = { "x" }',
    "a = { r0+ }\n" + "\n".join(f"r{i} = _{{ r{i + 1} | r{i + 1} ~ \"y\" }}" for i in range(40)) + '\nr40 = { "x" }',
    'a = { "b"' + "+" * 22 + " }",  # K05: attributed, not reported
    "a = { b{2147483648} }",  # K05: not loaded
    'a = { "x"{' + "0" * 5000 + "} }",
    'a = { "x"{' + "0" * 5000 + "3} }",
    "a = { PUSH(\"x\") ~ PEEK[-" + "0" * 5000 + "1..] }",
]
NESTING_CHARS = "(!&"

# Known finding K05: bounded repetitions and e+ are unrolled eagerly (at load time, and again by the optimizer's
# unroll pass), so loading costs time and memory proportional to the repetition counts and exponential in the
# depth of stacked repetition operators. unroll_cost() is a purely syntactic estimate of that blow-up.
_LEX = re.compile(r'"(?:\\.|[^"\\])*"?|\'(?:\\.|[^\'\\])*\'?|//[^\n]*|/\*.*?(?:\*/|$)|\{[\s0-9,]*\}|[(){}+~|]', re.S)
K05_SKIP = 2_000_000  # texts estimated above this are not loaded at all (memory of the sandbox)
K05_ATTRIBUTE = 10_000  # a step-budget or wall-clock overrun above this estimate is attributed to K05


def unroll_cost(text: str) -> int:
    total = 0
    stack = [[0, 1]]  # per open group: [cost of finished terms, cost of the current term]
    for m in _LEX.finditer(text):
        t = m.group()
        c = t[0]
        if c in "\"'" or t.startswith(("//", "/*")):
            continue
        if t in ("(", "{"):
            stack.append([0, 1])
        elif t in (")", "}"):
            if len(stack) > 1:
                g = stack.pop()
                stack[-1][1] = max(stack[-1][1], 1) * max(g[0] + g[1], 1) if t == ")" else stack[-1][1]
                if t == "}":
                    total += g[0] + g[1]
        elif t == "+":
            stack[-1][1] *= 2
        elif t in ("~", "|"):
            stack[-1][0] += stack[-1][1]
            stack[-1][1] = 1
        else:  # {n} {n,} {,m} {n,m}
            nums = [int(x[:12]) for x in re.findall(r"[0-9]+", t)]
            if nums:
                stack[-1][1] *= max(nums) + 1
        if stack[-1][1] > 10**15 or total > 10**15:
            return 10**15
    while stack:
        g = stack.pop()
        total += g[0] + g[1]
    return min(total, 10**15)


# ----------------------------------------------------------------------------- worker side


def load_texts(req):
    """Worker: classify Parser.from_grammar(text) for each text under the worker's optimizer config."""
    import pest

    from pestverif import budget, modes

    out = []
    for text in req["texts"]:
        cost = unroll_cost(text)
        if cost > K05_SKIP:
            out.append(("known", "K05", "not loaded"))
            continue
        try:
            budget.run_limited(lambda t=text: pest.Parser.from_grammar(t, optimizer=modes.make_optimizer()), req.get("limit", 30_000_000))
            out.append(("ok",))
        except pest.PestGrammarError as err:
            out.append(("grammar-error", type(err).__name__, check_error(err, text)))
        except budget.BudgetExceeded:
            out.append(("known", "K05", "budget") if cost > K05_ATTRIBUTE else ("budget",))
        except MemoryError:
            out.append(("known", "K05", "memory") if cost > K05_ATTRIBUTE else ("exc", "MemoryError", "", ""))
        except RecursionError:
            # Known finding K04: every level of nesting (parentheses, PUSH(, prefix operators) costs the
            # recursive-descent front end a handful of stack frames, so a deeply nested text exhausts the
            # interpreter stack (limit 4000 here). That is only counted. A text with fewer than 100 nesting
            # characters cannot nest that deep: there a RecursionError is an unbounded or per-operand
            # recursion, i.e. an exception type other than PestGrammarError escaping.
            if sum(text.count(c) for c in NESTING_CHARS) < MIN_NESTING:
                out.append(("exc", "RecursionError", "not nested", f"text with {sum(text.count(c) for c in NESTING_CHARS)} nesting characters"))
            else:
                out.append(("recursion",))
        except Exception as err:  # noqa: BLE001
            out.append(("exc", type(err).__name__, modes._where(err), modes._safe_str(err)[:160]))
    return out


_BASE: list = []


def column_base():
    """0 or 1: the column this implementation prints for a grammar error at offset 0; None if unknown."""
    if not _BASE:
        import pest

        base = None
        try:
            pest.Parser.from_grammar("?")
        except pest.PestGrammarError as err:
            tok = getattr(err, "token", None)
            m = _POS.search(str(err))
            if m and tok is not None and getattr(tok, "start", None) == 0 and int(m.group(2)) in (0, 1):
                base = int(m.group(2))
        except Exception:  # noqa: BLE001
            pass
        _BASE.append(base)
    return _BASE[0]


def check_error(err, text):
    """Problems with a PestGrammarError's rendering / position (list of strings)."""
    problems = []
    try:
        msg = str(err)
        if not isinstance(msg, str) or not msg:
            problems.append("empty message")
    except Exception as e2:  # noqa: BLE001
        return [f"str(error) raised {type(e2).__name__}: {e2}"]
    tok = getattr(err, "token", None)
    if tok is not None:
        start = getattr(tok, "start", None)
        if not isinstance(start, int) or not (0 <= start <= len(text)):
            problems.append(f"error token start {start} outside the text (length {len(text)})")
        m = _POS.search(msg)
        if m:
            line, col = int(m.group(1)), int(m.group(2))
            # Which characters break lines is not specified: accept the LF reading and the str.splitlines
            # reading (CR, FF, NEL, ... also break lines); a final empty line counts.
            lf = text.split("\n")
            sl = text.splitlines() + [""]
            ok = False
            # Columns: the base (0 or 1) is whatever this implementation reports for an error at offset 0
            # (calibrated once per worker); the position just past the last character of a line exists too.
            base = column_base()
            lo, hi = (0, 1) if base is None else (base, base)
            for lines in (lf, sl):
                if 1 <= line <= len(lines) and lo <= col <= len(lines[line - 1]) + hi:
                    ok = True
            if not ok:
                if not (1 <= line <= max(len(lf), len(sl))):
                    problems.append(f"message points at line {line}, the text has {len(lf)} line(s)")
                else:
                    problems.append(f"message points at column {col} of line {line}, which is shorter")
    return problems


# ----------------------------------------------------------------------------- driver side


MIN_NESTING = 100
MAX_TIMEOUTS = 8  # per shard and side; beyond it the rest of a timed-out batch is reported as not run


def judge(out):
    """Violation class or None / 'skip'."""
    if out[0] == "ok":
        return None
    if out[0] == "grammar-error":
        if out[2]:
            return "error-report:" + out[2][0].split(" ")[0] + "-" + out[2][0].split(" ")[1]
        return None
    if out[0] in ("recursion", "known"):
        return "skip"
    if out[0] == "budget":
        return "nontermination"
    return f"exc:{out[1]}@{out[2]}"


def rejected_late(out, text):
    return out[0] == "ok" or (out[0] == "grammar-error")


def run_texts(ctx: Ctx, modes, texts, label):
    texts = list(dict.fromkeys(texts))
    for side, worker in (("raw", modes.raw), ("opt", modes.opt)):
        for b in range(0, len(texts), 200):
            part = texts[b : b + 200]
            try:
                outs = worker.call("pestverif.props.c11:load_texts", {"texts": part})
            except WorkerDied:
                # a load that does not come back (time spent inside the C regex engine is invisible to the
                # step budget): isolate it text by text; a wall-clock timeout is inconclusive, never a violation
                outs = []
                worker.timeout = 5.0
                for t in part:
                    if ctx.hist.get("wall_clock_timeout_inconclusive:" + side, 0) >= MAX_TIMEOUTS:
                        outs.append(("recursion",))  # judged as 'skip'
                        ctx.count("not_run_after_timeouts:" + side)
                        continue
                    try:
                        outs.append(worker.call("pestverif.props.c11:load_texts", {"texts": [t]})[0])
                    except WorkerDied:
                        outs.append(("recursion",))
                        ctx.count(("known_K05_wall_clock:" if unroll_cost(t) > K05_ATTRIBUTE
                                   else "wall_clock_timeout_inconclusive:") + side)
                worker.timeout = 60.0
            for text, out in zip(part, outs):
                ctx.evals += 1
                ctx.count(f"{label}:{out[0]}")
                cls = judge(out)
                if cls == "skip":
                    continue
                if len(text) >= 3:
                    ctx.nontrivial([text, side])
                if cls is not None:
                    ctx.violation(f"{side}:{cls}", {"text": text, "optimizer": side}, f"{out}")


def shards(tier: str):
    return [{"idx": i} for i in range(16)]


def free_grammar_text(rng, profile="full"):
    from pestverif import ggen
    from pestverif.gfree import print_free

    rules = ggen.Gen(rng, ggen.PROFILES[profile], max_rules=4, max_depth=3).grammar()
    return print_free(rng, rules)


def mutate_text(rng, s):
    pool = "".join(v for v in VOCAB if len(v) == 1) + "abq \n"
    if not s:
        return rng.choice(pool)
    i = rng.randrange(len(s))
    k = rng.randrange(3)
    if k == 0:
        return s[:i] + s[i + 1 :]
    if k == 1:
        return s[:i] + rng.choice(pool) + s[i:]
    return s[:i] + rng.choice(pool) + s[i + 1 :]


def run_shard(ctx: Ctx, spec):
    import random

    import hypothesis
    from hypothesis import HealthCheck, Phase, settings
    from hypothesis import strategies as st

    from pestverif.meta import bundled_grammar_files
    from pestverif.modes import Modes

    idx = spec["idx"]
    size = SIZES[ctx.tier]
    rng = random.Random(ctx.sub_seed("c11"))
    modes = Modes()
    modes.raw.timeout = modes.opt.timeout = 120.0  # C11 isolates and counts texts that do not come back
    try:
        # 1. prefixes of the bundled grammars (work split by offset)
        for f in bundled_grammar_files():
            text = open(f, encoding="utf-8").read()
            stride = 1 if len(text) < 2500 else size["stride_big"]
            offs = [i for i in range(0, len(text) + 1, stride)]
            mine = [o for j, o in enumerate(offs) if j % 16 == idx]
            run_texts(ctx, modes, [text[:o] for o in mine], "bundled-prefix")
            # single-character mutations of the whole file
            muts = []
            for _ in range(size["mut"]):
                muts.append(mutate_text(rng, text))
            run_texts(ctx, modes, muts, "bundled-mutation")
        if idx == 0:
            ctx.sample({"kind": "every prefix", "of": "tests/grammars/json.pest", "count": "len+1"})

        # 2. generated grammars in free layout: all prefixes + mutations
        for _ in range(max(1, size["gen"] // 16 + (1 if idx < size["gen"] % 16 else 0))):
            g = free_grammar_text(rng)
            run_texts(ctx, modes, [g[:o] for o in range(len(g) + 1)], "generated-prefix")
            run_texts(ctx, modes, [mutate_text(rng, g) for _ in range(30)], "generated-mutation")
            if len(ctx.samples) < 3:
                ctx.sample({"kind": "generated grammar, every prefix + 30 mutations", "text": g[:200]})

        # 2b. whole generated grammars (optimizer-bait and full profiles): what the optimizer passes see at load time
        whole = []
        for k in range(size["whole"]):
            whole.append(free_grammar_text(rng, "bait" if k % 2 else "full"))
        run_texts(ctx, modes, whole, "generated-whole")

        # 3. hand-picked endings (every prefix of each as well)
        if idx == 0:
            texts = []
            for e in ENDINGS:
                texts.extend(e[:o] for o in range(len(e) + 1))
            run_texts(ctx, modes, texts, "endings")
        if idx == 1:
            run_texts(ctx, modes, BIG_TEXTS, "big")
        # every escape form, intact and damaged, in every literal position (the C10 matrix, here for totality)
        from pestverif.props.c10 import literal_matrix

        run_texts(ctx, modes, [t for j, t in enumerate(literal_matrix()) if j % 16 == idx], "literal-matrix")

        # 4. token soups
        @hypothesis.seed(ctx.sub_seed("soup"))
        @settings(max_examples=size["soups"], deadline=None, database=None, phases=[Phase.generate],
                  suppress_health_check=list(HealthCheck))
        @hypothesis.given(st.lists(st.sampled_from(VOCAB), max_size=14), st.booleans())
        def soup(toks, spaced):
            text = (" " if spaced else "").join(toks)
            run_texts(ctx, modes, [text], "soup")
            if len(ctx.samples) < 5 and len(toks) > 6:
                ctx.sample({"kind": "token soup", "text": text})

        soup()

        # 5. arbitrary text
        @hypothesis.seed(ctx.sub_seed("text"))
        @settings(max_examples=size["texts"], deadline=None, database=None, phases=[Phase.generate],
                  suppress_health_check=list(HealthCheck))
        @hypothesis.given(st.one_of(st.text(max_size=30), st.text(alphabet=st.characters(), max_size=12),
                                    st.text(alphabet=st.sampled_from(list('ab={}"\'\\xu{}09\ud800\udfff\x00 \n/*')), max_size=14)))
        def anytext(text):
            run_texts(ctx, modes, [text, "a = { " + text + " }", 'a = { "' + text + '" }'], "st.text")

        anytext()
        if ctx.tier == "thorough" or os.environ.get("PESTVERIF_FORCE_FUZZ"):
            run_atheris(ctx, modes, idx)
    finally:
        modes.close()


FUZZ = {"runs": int(os.environ.get("PESTVERIF_FUZZ_RUNS", "400000")), "max_len": 160}


def run_atheris(ctx: Ctx, modes, idx):
    """Thorough tier only: a libFuzzer campaign per shard (even shards start from an empty corpus, odd shards
    from the bundled grammars and the hand-picked endings); its candidate texts go through run_texts()."""
    import json
    import os
    import shutil
    import subprocess
    import sys
    import tempfile

    from pestverif import runner
    from pestverif.meta import bundled_grammar_files

    deps = os.path.join(runner.ROOT, ".deps")
    probe = subprocess.run([sys.executable, "-c", "import sys; sys.path.insert(0, %r); import atheris" % deps],
                           capture_output=True)
    if probe.returncode != 0:
        ctx.count("atheris_unavailable")
        return
    work = tempfile.mkdtemp(prefix="pestverif_fuzz_")
    try:
        corpus = os.path.join(work, "corpus")
        os.mkdir(corpus)
        if idx % 2:
            seeds = [open(f, encoding="utf-8").read()[:4000] for f in bundled_grammar_files()] + ENDINGS
            for i, t in enumerate(seeds):
                with open(os.path.join(corpus, f"s{i}"), "wb") as fh:
                    fh.write(t.encode("utf-8", "surrogatepass"))
        with open(os.path.join(work, "dict.txt"), "w", encoding="utf-8") as fh:
            for v in VOCAB:
                if v.isascii() and v.isprintable():
                    fh.write('"' + v.replace("\\", "\\\\").replace('"', '\\"') + '"\n')
        out = os.path.join(work, "out.jsonl")
        env = dict(os.environ, PESTVERIF_FUZZ_OUT=out,
                   PYTHONPATH=os.pathsep.join([runner.ROOT] + [p for p in os.environ.get("PYTHONPATH", "").split(os.pathsep) if p]))
        cmd = [sys.executable, "-m", "pestverif.fuzz_c11", f"-runs={FUZZ['runs']}", f"-seed={ctx.sub_seed('fuzz') % (2**31 - 2) + 1}",
               f"-max_len={FUZZ['max_len']}", "-dict=" + os.path.join(work, "dict.txt"), "-timeout=30",
               "-artifact_prefix=" + os.path.join(work, "art_"), "-print_final_stats=1", corpus]
        try:
            res = subprocess.run(cmd, env=env, cwd=runner.ROOT, capture_output=True, text=True, timeout=3600, errors="replace")
            tail = res.stderr[-3000:]
        except subprocess.TimeoutExpired:
            ctx.count("atheris_wall_clock_timeout_inconclusive")
            tail = ""
        runs = 0
        if os.path.exists(out + ".count"):
            parts = (open(out + ".count").read() or "0 0").split()
            runs = int(parts[0])
            ctx.count("atheris_excluded_known:K05", int(parts[1]) if len(parts) > 1 else 0)
        ctx.count("atheris_runs", runs)
        ctx.count("atheris_corpus_files", len(os.listdir(corpus)))
        for line in tail.splitlines():
            if "cov:" in line and "DONE" in line:
                try:
                    ctx.count("atheris_cov_edges_max", 0)
                    cov = int(line.split("cov:")[1].split()[0])
                    ctx.hist["atheris_cov_edges_max"] = max(ctx.hist["atheris_cov_edges_max"], cov)
                except ValueError:
                    pass
        for n in os.listdir(work):
            if n.startswith(("art_timeout", "art_oom", "art_slow")):
                ctx.count("atheris_" + n.split("-")[0][4:] + "_artifact_inconclusive")
        texts = []
        if os.path.exists(out):
            with open(out, encoding="utf-8") as fh:
                texts = [json.loads(ln)["text"] for ln in fh if ln.strip()]
        for n in os.listdir(work):
            if n.startswith("art_crash"):
                texts.append(open(os.path.join(work, n), "rb").read().decode("utf-8", "surrogatepass"))
        ctx.count("atheris_candidates", len(texts))
        # the corpus the fuzzer kept (inputs that reached new code) is also evaluated by the oracle of record
        kept = []
        for n in sorted(os.listdir(corpus)):
            try:
                kept.append(open(os.path.join(corpus, n), "rb").read().decode("utf-8", "surrogatepass"))
            except UnicodeDecodeError:
                pass
        run_texts(ctx, modes, texts + kept, "atheris")
        if kept and idx < 2:
            ctx.sample({"kind": "atheris corpus entry", "text": max(kept, key=len)[:160]}, force=True)
    finally:
        shutil.rmtree(work, ignore_errors=True)


def replay(case):
    from pestverif.modes import Modes

    m = Modes()
    try:
        w = m.raw if case["optimizer"] == "raw" else m.opt
        out = w.call("pestverif.props.c11:load_texts", {"texts": [case["text"]]})[0]
        cls = judge(out)
        if case.get("known") == "K04" and out[0] == "recursion":
            return f"[{case['optimizer']}] RecursionError escapes Parser.from_grammar for a deeply nested text"
        if case.get("known") == "K05" and out[0] == "known":
            return f"[{case['optimizer']}] loading exceeds the step budget: eager unrolling, estimated size {unroll_cost(case['text'])}"
        if cls in (None, "skip"):
            return None
        return f"[{case['optimizer']}] {cls}: Parser.from_grammar({case['text'][:200]!r}) -> {out}"
    finally:
        m.close()


def shrink(case):
    from pestverif.modes import Modes
    from pestverif.shrink import ddmin_str

    m = Modes()
    try:
        w = m.raw if case["optimizer"] == "raw" else m.opt

        def cls_of(t):
            return judge(w.call("pestverif.props.c11:load_texts", {"texts": [t]})[0])

        first = cls_of(case["text"])
        if first in (None, "skip"):
            return case
        return {**case, "text": ddmin_str(case["text"], lambda t: cls_of(t) == first, 300)}
    finally:
        m.close()
