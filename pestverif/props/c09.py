"""C09 - snapshotting stack / counter / parser state behave like full-copy snapshots.

Exhaustive DFS over all operation sequences up to a length bound (shared prefixes, the implementation
object is copied at every node) plus Hypothesis rule-based state machines for long histories.
Oracle: a reference model that stores full copies.
"""

from __future__ import annotations

import copy

from pestverif.runner import Ctx

ID = "C09"
RULE = (
    "exhaustive DFS over every sequence of {push(fresh int), pop, clear, snapshot, restore, drop_snapshot} "
    "(Stack; all sequences up to the bound, and all canonical sequences - no pop/clear on an empty stack, no "
    "restore/drop without a snapshot - up to a larger bound), {+1,-1,zero,snapshot,restore,drop} (SnapshottingInt) and {pos:=v,push,drop,rule_push,rule_pop,"
    "atomic+1,atomic.zero,checkpoint,ok,restore} (ParserState; ok/restore only with an open checkpoint, drop/"
    "rule_pop only on non-empty stacks) up to the tier's length bound, compared with a full-copy model after "
    "every step, plus Hypothesis RuleBasedStateMachine histories of up to 200 steps. A history (= DFS node, "
    "distinct by construction; random histories hashed) is non-trivial when it ends in a restore/drop whose "
    "innermost live snapshot had been undercut (stack went below the snapshot's level, counter/pos changed "
    "since the snapshot), i.e. the delta encoding is exercised."
)
ASSUMPTIONS = [
    "pop()/peek() on an empty Stack raise IndexError (documented) and leave the stack unchanged",
    "ParserState.ok()/restore() are only called with an open checkpoint (every caller in src/pest does so)",
]

STACK_OPS = ("push", "pop", "clear", "snapshot", "restore", "drop")
INT_OPS = ("inc", "dec", "zero", "snapshot", "restore", "drop")
STATE_OPS = (
    "pos", "push", "drop", "rpush", "rpop", "ainc", "azero", "checkpoint", "ok", "restore",
)

BOUNDS = {
    "quick": {"stack": 8, "canon": 11, "int": 8, "state": 6, "sm_examples": 60},
    "thorough": {"stack": 10, "canon": 13, "int": 10, "state": 7, "sm_examples": 600},
}


# ----------------------------------------------------------------------------- models


class StackModel:
    def __init__(self):
        self.items: list = []
        self.snaps: list[list] = []
        self.low: list[int] = []  # lowest length seen since each live snapshot

    def clone(self):
        m = StackModel()
        m.items = list(self.items)
        m.snaps = [list(s) for s in self.snaps]
        m.low = list(self.low)
        return m

    def apply(self, op, arg=None):
        """Returns (raised_index_error, undercut) - undercut marks a non-trivial restore/drop."""
        undercut = False
        if op == "push":
            self.items.append(arg)
        elif op == "pop":
            if not self.items:
                return True, False
            self.items.pop()
        elif op == "clear":
            self.items.clear()
        elif op == "snapshot":
            self.snaps.append(list(self.items))
            self.low.append(len(self.items))
        elif op == "restore":
            if self.snaps:
                snap = self.snaps.pop()
                undercut = self.low.pop() < len(snap)
                self.items = snap
            else:
                self.items = []
        elif op == "drop":
            if self.snaps:
                snap = self.snaps.pop()
                undercut = self.low.pop() < len(snap) and bool(self.snaps)
        if self.low and len(self.items) < self.low[-1]:
            self.low[-1] = len(self.items)
        # propagate low-water marks to outer snapshots
        for i in range(len(self.low)):
            if len(self.items) < self.low[i]:
                self.low[i] = len(self.items)
        return False, undercut


def stack_apply(stack, op, arg=None):
    """Apply `op` to a pest Stack. Returns True iff IndexError was raised."""
    if op == "push":
        stack.push(arg)
    elif op == "pop":
        try:
            stack.pop()
        except IndexError:
            return True
    elif op == "clear":
        stack.clear()
    elif op == "snapshot":
        stack.snapshot()
    elif op == "restore":
        stack.restore()
    elif op == "drop":
        stack.drop_snapshot()
    return False


def stack_view(stack):
    items = list(stack)
    try:
        top = ("top", stack.peek())
    except IndexError:
        top = ("IndexError",)
    return (items, len(stack), stack.empty(), top, list(stack[:]), [stack[i] for i in range(len(items))])


def model_view(m):
    items = list(m.items)
    top = ("top", items[-1]) if items else ("IndexError",)
    return (items, len(items), not items, top, items, items)


def clone_stack(stack):
    from pest.stack import Stack

    s = Stack()
    s.items = list(stack.items)
    s.popped = list(stack.popped)
    s.lengths = list(stack.lengths)
    return s


def check_stack_seq(seq):
    """Replay a Stack history; return a violation description or None."""
    from pest.stack import Stack

    s, m = Stack(), StackModel()
    for i, (op, arg) in enumerate(seq):
        try:
            r_impl = stack_apply(s, op, arg)
        except Exception as err:  # noqa: BLE001
            return f"step {i} {op}: implementation raised {type(err).__name__}: {err}"
        r_model, _ = m.apply(op, arg)
        if r_impl != r_model:
            return f"step {i} {op}: IndexError raised={r_impl}, model={r_model}"
        try:
            got = stack_view(s)
        except Exception as err:  # noqa: BLE001
            return f"step {i} {op}: observing the stack raised {type(err).__name__}: {err}"
        if got != model_view(m):
            return f"step {i} {op}: stack shows {got[0]} (len {got[1]}), full-copy model has {m.items}"
    return None


def _enabled(m, op):
    """Canonical histories: every operation does something (no pop/clear on an empty stack, no
    restore/drop without a snapshot)."""
    if op in ("pop", "clear"):
        return bool(m.items)
    if op in ("restore", "drop"):
        return bool(m.snaps)
    return True


def dfs_stack(ctx: Ctx, prefix, max_len, canonical=False):
    from pest.stack import Stack

    s, m = Stack(), StackModel()
    seq = []
    for op in prefix:
        if canonical and not _enabled(m, op):
            return
        arg = len(seq) if op == "push" else None
        seq.append((op, arg))
        stack_apply(s, op, arg)
        m.apply(op, arg)

    def rec(s, m, depth):
        for op in STACK_OPS:
            if canonical and not _enabled(m, op):
                continue
            arg = depth if op == "push" else None
            s2, m2 = clone_stack(s), m.clone()
            seq.append((op, arg))
            bad = None
            try:
                r_impl = stack_apply(s2, op, arg)
                r_model, undercut = m2.apply(op, arg)
                ctx.evals += 1
                if r_impl != r_model:
                    bad = f"{op}: IndexError raised={r_impl}, model={r_model}"
                else:
                    got = stack_view(s2)
                    if got != model_view(m2):
                        bad = f"{op}: stack shows {got[0]}, full-copy model has {m2.items}"
            except Exception as err:  # noqa: BLE001 - the implementation raised
                bad = f"{op}: implementation raised {type(err).__name__}: {err}"
                undercut = False
            if bad:
                ctx.violation(
                    "stack:" + bad.split(":")[0] + ":" + ("raised" if "raised" in bad else "mismatch"),
                    {"object": "stack", "ops": [list(x) for x in seq]},
                    bad,
                )
            else:
                if undercut:
                    ctx.nt_extra += 1
                    if len(ctx.samples) < 2:
                        ctx.sample({"object": "stack", "ops": [o for o, _ in seq], "final": list(s2)})
                if depth + 1 < max_len:
                    rec(s2, m2, depth + 1)
            seq.pop()

    if len(prefix) < max_len:
        rec(s, m, len(prefix))


# ----------------------------------------------------------------------------- SnapshottingInt


def int_apply(x, op):
    if op == "inc":
        x += 1
    elif op == "dec":
        x -= 1
    elif op == "zero":
        x.zero()
    elif op == "snapshot":
        x.snapshot()
    elif op == "restore":
        x.restore()
    elif op == "drop":
        x.drop()
    return x


def check_int_seq(ops):
    from pest.checkpoint_int import SnapshottingInt

    x = SnapshottingInt()
    val, snaps = 0, []
    for i, op in enumerate(ops):
        try:
            x = int_apply(x, op)
        except Exception as err:  # noqa: BLE001
            return f"step {i} {op}: raised {type(err).__name__}: {err}"
        if op == "inc":
            val += 1
        elif op == "dec":
            val -= 1
        elif op == "zero":
            val = 0
        elif op == "snapshot":
            snaps.append(val)
        elif op == "restore":
            val = snaps.pop() if snaps else 0
        elif op == "drop" and snaps:
            snaps.pop()
        if int(x) != val or not (x == val) or (x > 0) != (val > 0):
            return f"step {i} {op}: counter is {int(x)}, full-copy model has {val}"
    return None


def dfs_int(ctx: Ctx, prefix, max_len):
    from pest.checkpoint_int import SnapshottingInt

    ops = list(prefix)

    def build(ops):
        x = SnapshottingInt()
        for op in ops:
            x = int_apply(x, op)
        return x

    def rec(val, snaps, depth):
        for op in INT_OPS:
            ops.append(op)
            v2, s2 = val, snaps
            nontriv = False
            if op == "inc":
                v2 += 1
            elif op == "dec":
                v2 -= 1
            elif op == "zero":
                v2 = 0
            elif op == "snapshot":
                s2 = snaps + (val,)
            elif op == "restore":
                if snaps:
                    nontriv = snaps[-1] != val
                    v2, s2 = snaps[-1], snaps[:-1]
                else:
                    v2 = 0
            elif op == "drop" and snaps:
                nontriv = snaps[-1] != val and len(snaps) > 1
                s2 = snaps[:-1]
            ctx.evals += 1
            # the counter is cheap to rebuild: replay the whole sequence (no clone needed)
            bad = None
            try:
                x = build(ops)
                if int(x) != v2 or not (x == v2):
                    bad = f"{op}: counter is {int(x)}, full-copy model has {v2}"
            except Exception as err:  # noqa: BLE001
                bad = f"{op}: raised {type(err).__name__}: {err}"
            if bad:
                ctx.violation(
                    "int:" + op + ":" + ("raised" if "raised" in bad else "mismatch"),
                    {"object": "int", "ops": list(ops)},
                    bad,
                )
            else:
                if nontriv:
                    ctx.nt_extra += 1
                if depth + 1 < max_len:
                    rec(v2, s2, depth + 1)
            ops.pop()

    # model state after prefix
    val, snaps = 0, ()
    for op in prefix:
        if op == "inc":
            val += 1
        elif op == "dec":
            val -= 1
        elif op == "zero":
            val = 0
        elif op == "snapshot":
            snaps = snaps + (val,)
        elif op == "restore":
            val, snaps = (snaps[-1], snaps[:-1]) if snaps else (0, snaps)
        elif op == "drop" and snaps:
            snaps = snaps[:-1]
    if len(prefix) < max_len:
        rec(val, snaps, len(prefix))


# ----------------------------------------------------------------------------- ParserState


class _Frame:
    def __init__(self, name):
        self.name = name

    def __repr__(self):
        return f"F{self.name}"


def state_enabled(model, op):
    pos, user, rules, atomic, cps = model
    if op in ("ok", "restore"):
        return bool(cps)
    if op == "drop":
        return bool(user)
    if op == "rpop":
        return bool(rules)
    return True


def state_model_apply(model, op, arg):
    pos, user, rules, atomic, cps = model
    if op == "pos":
        pos = arg
    elif op == "push":
        user = user + (f"u{arg}",)
    elif op == "drop":
        user = user[:-1]
    elif op == "rpush":
        rules = rules + (f"r{arg}",)
    elif op == "rpop":
        rules = rules[:-1]
    elif op == "ainc":
        atomic += 1
    elif op == "azero":
        atomic = 0
    elif op == "checkpoint":
        cps = cps + ((pos, user, rules, atomic),)
    elif op == "ok":
        cps = cps[:-1]
    elif op == "restore":
        pos, user, rules, atomic = cps[-1]
        cps = cps[:-1]
    return (pos, user, rules, atomic, cps)


def state_impl_apply(st, op, arg):
    if op == "pos":
        st.pos = arg
    elif op == "push":
        st.push(f"u{arg}")
    elif op == "drop":
        st.drop()
    elif op == "rpush":
        st.rule_stack.push(_Frame(f"r{arg}"))
    elif op == "rpop":
        st.rule_stack.pop()
    elif op == "ainc":
        st.atomic_depth += 1
    elif op == "azero":
        st.atomic_depth.zero()
    elif op == "checkpoint":
        st.checkpoint()
    elif op == "ok":
        st.ok()
    elif op == "restore":
        st.restore()


def state_view(st):
    return (
        st.pos,
        tuple(st.user_stack),
        tuple(f.name for f in st.rule_stack),
        int(st.atomic_depth),
    )


def state_model_view(model):
    pos, user, rules, atomic, _ = model
    return (pos, user, rules, atomic)


def check_state_seq(seq):
    from pest.state import ParserState

    st = ParserState("x" * 64, 0, None)
    model = (0, (), (), 0, ())
    for i, (op, arg) in enumerate(seq):
        if not state_enabled(model, op):
            return None  # precondition violated by a shrunk sequence: not a counter-example
        try:
            state_impl_apply(st, op, arg)
            got = state_view(st)
        except Exception as err:  # noqa: BLE001
            return f"step {i} {op}: raised {type(err).__name__}: {err}"
        model = state_model_apply(model, op, arg)
        if got != state_model_view(model):
            return f"step {i} {op}: state shows {got}, full-copy model has {state_model_view(model)}"
    return None


def dfs_state(ctx: Ctx, prefix, max_len):
    seq = []
    model = (0, (), (), 0, ())
    for op in prefix:
        if not state_enabled(model, op):
            return
        arg = len(seq) + 1
        seq.append((op, arg))
        model = state_model_apply(model, op, arg)

    def rec(model, depth):
        for op in STATE_OPS:
            if not state_enabled(model, op):
                continue
            arg = depth + 1
            seq.append((op, arg))
            m2 = state_model_apply(model, op, arg)
            ctx.evals += 1
            bad = check_state_seq(seq) if depth + 1 == max_len or op in ("ok", "restore") else None
            # (a full replay at every node would be quadratic; the state is compared after every step
            #  inside check_state_seq, and every node is a prefix of a replayed leaf or an ok/restore node)
            if bad:
                ctx.violation(
                    "state:" + bad.split(":")[0].split()[-1] + ":" + ("raised" if "raised" in bad else "mismatch"),
                    {"object": "state", "ops": [list(x) for x in seq]},
                    bad,
                )
            else:
                if op in ("ok", "restore") and model[4] and model[4][-1] != model[:4]:
                    ctx.nt_extra += 1
                    if len(ctx.samples) < 3 and depth >= 3:
                        ctx.sample({"object": "state", "ops": [o for o, _ in seq], "final": list(m2[:4])})
                if depth + 1 < max_len:
                    rec(m2, depth + 1)
            seq.pop()

    if len(prefix) < max_len:
        rec(model, len(prefix))


# ----------------------------------------------------------------------------- random long histories


def run_state_machines(ctx: Ctx, n_examples: int):
    import hypothesis
    from hypothesis import HealthCheck, Phase, settings
    from hypothesis import strategies as st

    sett = settings(
        max_examples=n_examples,
        deadline=None,
        database=None,
        phases=[Phase.generate],
        suppress_health_check=list(HealthCheck),
        report_multiple_bugs=False,
        derandomize=False,
    )

    def sized(elem):
        # draw the length first: Hypothesis' own list sizes are heavily skewed towards short lists
        return st.integers(10, 200).flatmap(lambda n: st.lists(elem, min_size=n, max_size=n))

    # weighted towards snapshot/pop so that deep nestings with undercut snapshots are common
    op_stack = sized(st.sampled_from(STACK_OPS + ("push", "snapshot", "pop", "snapshot")))
    op_int = sized(st.sampled_from(INT_OPS))
    op_state = sized(st.tuples(st.sampled_from(STATE_OPS + ("checkpoint", "push", "drop")), st.integers(0, 9)))

    @hypothesis.seed(ctx.sub_seed("sm-stack"))
    @settings(sett)
    @hypothesis.given(op_stack)
    def t_stack(ops):
        seq = [(op, i if op == "push" else None) for i, op in enumerate(ops)]
        ctx.evals += 1
        bad = check_stack_seq(seq)
        m = StackModel()
        nt = False
        for op, arg in seq:
            _, u = m.apply(op, arg)
            nt = nt or u
        if nt:
            ctx.nontrivial(["stack", ops])
            ctx.count("random_stack_histories_nontrivial")
        if bad:
            ctx.violation("stack-random", {"object": "stack", "ops": [list(x) for x in seq]}, bad)
        elif nt and len(ctx.samples) < 5:
            ctx.sample({"object": "stack", "random": True, "ops": ops[:40], "len": len(ops)})

    @hypothesis.seed(ctx.sub_seed("sm-int"))
    @settings(sett)
    @hypothesis.given(op_int)
    def t_int(ops):
        ctx.evals += 1
        bad = check_int_seq(ops)
        if "restore" in ops or "drop" in ops:
            ctx.nontrivial(["int", ops])
        if bad:
            ctx.violation("int-random", {"object": "int", "ops": list(ops)}, bad)

    @hypothesis.seed(ctx.sub_seed("sm-state"))
    @settings(sett)
    @hypothesis.given(op_state)
    def t_state(raw):
        # repair the drawn sequence so that every operation's precondition holds (construction, not
        # rejection): a disabled operation is replaced by `checkpoint`.
        model = (0, (), (), 0, ())
        seq = []
        nt = False
        for i, (op, v) in enumerate(raw):
            if not state_enabled(model, op):
                op = "checkpoint"
            arg = v if op == "pos" else i + 1
            if op in ("ok", "restore") and model[4][-1] != model[:4]:
                nt = True
            seq.append((op, arg))
            model = state_model_apply(model, op, arg)
        ctx.evals += 1
        bad = check_state_seq(seq)
        if nt:
            ctx.nontrivial(["state", seq])
        if bad:
            ctx.violation("state-random", {"object": "state", "ops": [list(x) for x in seq]}, bad)

    t_stack()
    t_int()
    t_state()


class StackMachineFactory:
    """A Hypothesis RuleBasedStateMachine for the Stack (the stateful API proper)."""

    @staticmethod
    def run(ctx: Ctx, n_examples: int):
        import hypothesis
        from hypothesis import HealthCheck, Phase, settings
        from hypothesis import strategies as st
        from hypothesis.stateful import RuleBasedStateMachine, invariant, rule, run_state_machine_as_test
        from pest.stack import Stack

        histories: list = []

        class StackMachine(RuleBasedStateMachine):
            def __init__(self):
                super().__init__()
                self.s = Stack()
                self.m = StackModel()
                self.ops: list = []
                self.n = 0
                self.nt = False
                histories.append(self)

            def _do(self, op):
                self.n += 1
                arg = self.n if op == "push" else None
                self.ops.append((op, arg))
                r_impl = stack_apply(self.s, op, arg)
                r_model, u = self.m.apply(op, arg)
                self.nt = self.nt or u
                assert r_impl == r_model, f"{op}: IndexError {r_impl} vs model {r_model}"

            @rule()
            def push(self):
                self._do("push")

            @rule()
            def pop(self):
                self._do("pop")

            @rule()
            def clear(self):
                self._do("clear")

            @rule()
            def snapshot(self):
                self._do("snapshot")

            @rule()
            def restore(self):
                self._do("restore")

            @rule()
            def drop(self):
                self._do("drop")

            @invariant()
            def agrees(self):
                assert stack_view(self.s) == model_view(self.m), (
                    f"stack shows {list(self.s)}, full-copy model has {self.m.items}"
                )

        sett = settings(
            max_examples=n_examples,
            stateful_step_count=200,
            deadline=None,
            database=None,
            phases=[Phase.generate],
            suppress_health_check=list(HealthCheck),
            report_multiple_bugs=False,
        )
        try:
            run_state_machine_as_test(
                hypothesis.seed(ctx.sub_seed("rbsm"))(StackMachine), settings=sett
            )
        except AssertionError as err:
            last = histories[-1]
            ctx.violation(
                "stack-machine",
                {"object": "stack", "ops": [list(x) for x in last.ops]},
                f"rule-based machine: {err}",
            )
        except Exception as err:  # noqa: BLE001 - exception raised by the implementation under test
            last = histories[-1]
            ctx.violation(
                "stack-machine-exc",
                {"object": "stack", "ops": [list(x) for x in last.ops]},
                f"rule-based machine: implementation raised {type(err).__name__}: {err}",
            )
        for hmach in histories:
            ctx.evals += 1
            if hmach.nt:
                ctx.nontrivial(["rbsm", [o for o, _ in hmach.ops]])
        ctx.count("rule_based_machine_runs", len(histories))
        ctx.count("rule_based_machine_steps", sum(len(h.ops) for h in histories))


# ----------------------------------------------------------------------------- plumbing


def shards(tier: str):
    import itertools

    b = BOUNDS[tier]
    jobs = []
    for p in itertools.product(STACK_OPS, repeat=2):
        jobs.append(("stack", list(p), b["stack"]))
    for p in itertools.product(STACK_OPS, repeat=3):
        jobs.append(("canon", list(p), b["canon"]))
    for p in itertools.product(INT_OPS, repeat=2):
        jobs.append(("int", list(p), b["int"]))
    for p in itertools.product(STATE_OPS, repeat=2):
        jobs.append(("state", list(p), b["state"]))
    jobs.append(("short", None, None))
    # heavy jobs first, round-robin into 16 shards
    out = [{"jobs": [], "sm": b["sm_examples"], "idx": i} for i in range(16)]
    order = sorted(jobs, key=lambda j: {"canon": 0, "stack": 1, "state": 2, "int": 3, "short": 4}[j[0]])
    for i, j in enumerate(order):
        out[i % 16]["jobs"].append(j)
    return out


def run_shard(ctx: Ctx, spec):
    b = BOUNDS[ctx.tier]
    for kind, prefix, bound in spec["jobs"]:
        if kind == "stack":
            dfs_stack(ctx, prefix, bound)
        elif kind == "canon":
            dfs_stack(ctx, prefix, bound, canonical=True)
        elif kind == "int":
            dfs_int(ctx, prefix, bound)
        elif kind == "state":
            dfs_state(ctx, prefix, bound)
        elif kind == "short":
            # all sequences of length <= 2 (the DFS jobs start below their 2-operation prefix)
            dfs_stack(ctx, [], 2)
            dfs_int(ctx, [], 2)
            dfs_state(ctx, [], 2)
    run_state_machines(ctx, spec["sm"])
    if spec["idx"] % 4 == 0:
        StackMachineFactory.run(ctx, max(5, spec["sm"] // 4))
    ctx.exhaustive.update(
        {
            "complete": True,
            "stack_max_len": b["stack"],
            "stack_canonical_max_len": b["canon"],
            "int_max_len": b["int"],
            "state_max_len": b["state"],
        }
    )


def replay(case):
    ops = case["ops"]
    if case["object"] == "stack":
        return check_stack_seq([tuple(x) for x in ops])
    if case["object"] == "int":
        return check_int_seq(list(ops))
    if case["object"] == "state":
        return check_state_seq([tuple(x) for x in ops])
    raise ValueError(case["object"])


def shrink(case):
    from pestverif.shrink import ddmin_list

    def fails(ops):
        return bool(replay({"object": case["object"], "ops": ops}))

    return {"object": case["object"], "ops": ddmin_list(list(case["ops"]), fails)}
