"""C14 - Position / Span / line-column utilities agree with the text (closed-form oracle)."""

from __future__ import annotations

import itertools

from pestverif.runner import Ctx

ID = "C14"
RULE = (
    "every text over {a, e-acute, LF, blank} up to the tier's length bound x every offset 0..len x every span a<=b "
    "(exhaustive), plus Hypothesis texts of up to 400 characters over all of Unicode minus the non-LF "
    "str.splitlines separators and surrogates; Pair.line_col() observed on real pairs from parsing "
    "`t = { c* } c = { ANY }`. A (text, offset) or (text, span) case is non-trivial when the text has >= 2 "
    "lines or the offset is a boundary (0, len, adjacent to a LF); distinct by (text, offset/span)."
)
ASSUMPTIONS = [
    "line breaks are LF only (the statement says so); texts containing other str.splitlines separators are "
    "not generated",
    "Span.lines(): a contiguous run of lines starting at the line of `start`, ending at the line owning the "
    "last character of the span or at the line containing position `end` (both readings accepted; [] also "
    "accepted for an empty span); line_of(): accepted with or without the line terminator",
]

BOUNDS = {"quick": {"maxlen": 7, "hyp": 150}, "thorough": {"maxlen": 9, "hyp": 2500}}
ALPHABET = "aé\n "


def ref_line_col(text: str, p: int) -> tuple[int, int]:
    return 1 + text.count("\n", 0, p), 1 + p - (text.rfind("\n", 0, p) + 1)


def ref_lines(text: str) -> list[str]:
    out = []
    i = 0
    while i < len(text):
        j = text.find("\n", i)
        if j == -1:
            out.append(text[i:])
            break
        out.append(text[i : j + 1])
        i = j + 1
    return out


def check_text(text: str, pair_cols: dict[int, tuple[int, int]] | None):
    """Yield (kind, key, violation-or-None, nontrivial) for every offset and span of `text`."""
    from pest.pairs import Position, Span

    n = len(text)
    lines = ref_lines(text)
    multi = text.count("\n") >= 1 and n >= 2
    line_starts = [0]
    for ln in lines:
        line_starts.append(line_starts[-1] + len(ln))
    for p in range(n + 1):
        boundary = p in (0, n) or text[p - 1 : p] == "\n" or text[p : p + 1] == "\n"
        nt = multi or boundary
        want = ref_line_col(text, p)
        bad = None
        try:
            got = Position(text, p).line_col()
            if tuple(got) != want:
                bad = f"Position.line_col() = {tuple(got)}, closed form {want}"
            else:
                # inverse map: (line, col) -> offset
                ln, col = got
                start = line_starts[ln - 1] if ln - 1 < len(line_starts) else None
                if start is None or start + col - 1 != p:
                    bad = f"line/col {got} does not map back to offset {p}"
        except Exception as err:  # noqa: BLE001
            bad = f"Position.line_col() raised {type(err).__name__}: {err}"
        yield ("line_col", p, bad, nt)

        # line_of
        sol = text.rfind("\n", 0, p) + 1
        eol = text.find("\n", p)
        full = text[sol:] if eol == -1 else text[sol : eol + 1]
        bare = full[:-1] if full.endswith("\n") else full
        bad = None
        try:
            got = Position(text, p).line_of()
            if got not in (full, bare):
                bad = f"Position.line_of() = {got!r}, the line containing the offset is {full!r}"
        except Exception as err:  # noqa: BLE001
            bad = f"Position.line_of() raised {type(err).__name__}: {err}"
        yield ("line_of", p, bad, nt)

        if pair_cols is not None and p in pair_cols:
            got = pair_cols[p]
            bad = None if tuple(got) == want else f"Pair.line_col() = {tuple(got)}, closed form {want}"
            yield ("pair_line_col", p, bad, nt)

    for a in range(n + 1):
        for b in range(a, n + 1):
            nt = multi
            bad = None
            try:
                sp = Span(text, a, b)
                if str(sp) != text[a:b] or sp.as_str() != text[a:b]:
                    bad = f"str(span) = {str(sp)!r}, text[a:b] = {text[a:b]!r}"
                s_pos, e_pos = sp.start_pos(), sp.end_pos()
                if (s_pos.text, s_pos.pos, e_pos.text, e_pos.pos) != (text, a, text, b):
                    bad = f"start_pos/end_pos = {(s_pos.pos, e_pos.pos)}, span is {(a, b)}"
                sa, sb = sp.split()
                if (sa.pos, sb.pos) != (a, b) or sa.text != text or sb.text != text:
                    bad = f"split() = {(sa.pos, sb.pos)}, span is {(a, b)}"
                if tuple(sa.line_col()) != ref_line_col(text, a) or tuple(sb.line_col()) != ref_line_col(text, b):
                    bad = "split() positions disagree with the closed form line/col"
                got = list(sp.lines())
                i = text.count("\n", 0, a)
                allowed = []
                j_end = text.count("\n", 0, b) + 1
                allowed.append(lines[i:j_end])
                if b > a:
                    allowed.append(lines[i : text.count("\n", 0, b - 1) + 1])
                else:
                    allowed.append([])
                if got not in allowed:
                    bad = f"Span.lines() = {got!r}; lines touched: {allowed[-1]!r} (or {allowed[0]!r})"
            except Exception as err:  # noqa: BLE001
                bad = f"Span API raised {type(err).__name__}: {err}"
            yield ("span", (a, b), bad, nt)


def pair_line_cols(parser, text):
    """Pair.line_col() for a pair starting at every offset < len(text)."""
    pairs = parser.parse("t", text)
    out = {}
    root = pairs.first()
    out[root.start] = tuple(root.line_col())
    for child in root.children:
        out[child.start] = tuple(child.line_col())
    return out


def _case(text, kind, key):
    return {"text": text, "kind": kind, "key": list(key) if isinstance(key, tuple) else key}


def run_text(ctx: Ctx, parser, text: str, exhaustive: bool):
    try:
        cols = pair_line_cols(parser, text)
    except Exception as err:  # noqa: BLE001
        ctx.violation("pair:raised", _case(text, "pair_line_col", 0), f"parsing/line_col raised {err!r}")
        cols = None
    for kind, key, bad, nt in check_text(text, cols):
        ctx.evals += 1
        if nt:
            if exhaustive:
                ctx.nt_extra += 1
            else:
                ctx.nontrivial([text, kind, key])
        if bad:
            ctx.violation(f"{kind}:{'raised' if 'raised' in bad else 'mismatch'}", _case(text, kind, key), bad)


def shards(tier: str):
    return [{"idx": i} for i in range(16)]


def run_shard(ctx: Ctx, spec):
    import hypothesis
    from hypothesis import HealthCheck, Phase, settings
    from hypothesis import strategies as st
    from pest import Parser

    b = BOUNDS[ctx.tier]
    parser = Parser.from_grammar("t = { c* }\nc = { ANY }", optimizer=None)
    k = 0
    for n in range(b["maxlen"] + 1):
        for chars in itertools.product(ALPHABET, repeat=n):
            if k % 16 == spec["idx"]:
                text = "".join(chars)
                run_text(ctx, parser, text, True)
                if n == 5 and len(ctx.samples) < 1:
                    ctx.sample({"text": text, "offsets": "0..5", "spans": "all a<=b"})
            k += 1
    ctx.exhaustive.update({"complete": True, "alphabet": ALPHABET, "max_text_len": b["maxlen"]})

    alphabet = st.characters(
        blacklist_categories=("Cs",),
        blacklist_characters="\r\x0b\x0c\x1c\x1d\x1e\x85  ",
    )
    texts = st.lists(
        st.one_of(st.text(alphabet=alphabet, max_size=40), st.sampled_from(["", "\n", "x", "é\U0001F600"])),
        max_size=10,
    ).map("\n".join)

    @hypothesis.seed(ctx.sub_seed("hyp"))
    @settings(
        max_examples=b["hyp"],
        deadline=None,
        database=None,
        phases=[Phase.generate],
        suppress_health_check=list(HealthCheck),
    )
    @hypothesis.given(texts)
    def t(text):
        run_text(ctx, parser, text, False)
        if len(ctx.samples) < 3 and text.count("\n") >= 2:
            ctx.sample({"text": text[:60], "len": len(text), "random": True})

    t()


def replay(case):
    from pest import Parser

    text = case["text"]
    key = tuple(case["key"]) if isinstance(case["key"], list) else case["key"]
    cols = None
    if case["kind"] == "pair_line_col":
        parser = Parser.from_grammar("t = { c* }\nc = { ANY }", optimizer=None)
        try:
            cols = pair_line_cols(parser, text)
        except Exception as err:  # noqa: BLE001
            return f"parsing/line_col raised {err!r}"
    for kind, k, bad, _ in check_text(text, cols):
        if kind == case["kind"] and k == key and bad:
            return bad
    return None


def shrink(case):
    # try shorter texts that show a violation of the same kind
    text = case["text"]
    from pest import Parser

    parser = Parser.from_grammar("t = { c* }\nc = { ANY }", optimizer=None)
    best = case
    for _ in range(60):
        improved = False
        for i in range(len(text)):
            cand = text[:i] + text[i + 1 :]
            try:
                cols = pair_line_cols(parser, cand)
            except Exception:  # noqa: BLE001
                cols = None
            for kind, k, bad, _ in check_text(cand, cols):
                if kind == case["kind"] and bad and ("raised" in bad) == ("raised" in replay(case) or ""):
                    best = _case(cand, kind, k)
                    text = cand
                    improved = True
                    break
            if improved:
                break
        if not improved:
            break
    return best
