"""C05 - stack operations match their specification and are undone on backtracking."""

from __future__ import annotations

from pestverif import ganalysis, ggen, gprint, refdiff, refpeg
from pestverif.gast import BUILTIN_IDS
from pestverif.runner import Ctx

ID = "C05"
RULE = (
    "(a) Hypothesis-driven constructive grammar generator, profile stack: PUSH(e) (nullable and multi-character "
    "e), PUSH_LITERAL, PEEK, POP, DROP, PEEK_ALL, POP_ALL, PEEK[a..b] (positive, negative, omitted bounds) "
    "mixed with choice / optional / every repetition form / both predicates and guarded recursion, inputs "
    "over a two-letter alphabet (derivations that replay the pushed texts, mutations, random strings); "
    "oracle: reference evaluator with an immutable stack, compared in all four modes (outcome and tree; any "
    "exception other than PestParsingError is a violation). (b) operation-level: Hypothesis draws a stack of "
    "0-4 entries over '', a, b, ab, a text, a position and one operation wrapped in a silent rule r = _{ OP }; "
    "(returned bool, position, stack) of the interpreter rule object and of the generated parse_r are "
    "compared with the specification. (c) history grammars: r0 = { H ~ PEEK_ALL|POP_ALL|PEEK[..] ~ EOI } where H "
    "is a random nest of PUSH_LITERAL / PUSH / DROP / POP / PEEK under optionals, alternatives, predicates and "
    "repetitions that are committed or rolled back ('!' never matches), with the input chosen so that the "
    "reference succeeds and the final observation sees the whole stack. (d) exhaustive: EVERY nested history of "
    "push(fresh letter) / pop / checkpoint..commit / checkpoint..rollback with at most 9 (quick) / 11 "
    "(thorough) operations, compiled to a grammar (commit = ( .. )? or ( .. | \"!\"), rollback = ( .. ~ \"!\")?, "
    "(( .. ~ \"!\") | \"\"), &( .. ), !( .. ~ \"!\")) followed by PEEK_ALL / POP_ALL / PEEK[..] ~ EOI, four modes. "
    "(e) POP_ALL matrix: POP_ALL inside every committed / rolled-back construct x 0-3 entries before x entries "
    "dropped or popped first (down to none left) x 0-2 fresh pushes before x 0-1 after, optionally nested. "
    "Non-trivial: (a) the reference undid a stack change on backtracking / "
    "after a predicate or an operation hit the empty stack; (b) the stack is non-empty or the operation "
    "fails; distinct by hash of the case."
)
ASSUMPTIONS = [
    "PEEK[a..b] with indices outside the current stack is unspecified (pest fails, Python slicing clamps) and "
    "discarded",
    "PEEK_ALL / POP_ALL match the entries with no implicit trivia between them (C04: trivia 'nowhere else')",
]
SIZES = {"quick": {"grammars": 250, "ops": 400, "hist": 600, "exh": 9}, "thorough": {"grammars": 4000, "ops": 6000, "hist": 20000, "exh": 11}}
MODES = refdiff.ALL_MODES


def nontrivial(stats, want, call):
    return bool(stats.get("stack_change_undone") or stats.get("empty_stack_op"))


# ----------------------------------------------------------------------------- operation level

OPS = [
    ("id", "PEEK"), ("id", "POP"), ("id", "DROP"), ("id", "PEEK_ALL"), ("id", "POP_ALL"),
    ("pushlit", "a"), ("pushlit", ""), ("pushlit", "ab"),
    ("push", ("str", "a")), ("push", ("str", "ab")), ("push", ("id", "ANY")), ("push", ("range", "a", "b")),
    ("push", ("opt", ("str", "a"))), ("push", ("star", ("str", "a"))),
]


def op_spec(op, stack, text, pos, with_ws=False):
    """(ok, pos', stack') according to the statement, or None if unspecified."""
    rules = {"WHITESPACE": ("_", ("str", " "))} if with_ws else {}
    ref = refpeg.Ref(rules, text)
    try:
        r = ref.ev(op, pos, tuple(stack), refpeg.N, False)
    except refpeg.Unspecified:
        return None
    if r is refpeg.FAIL:
        return (False, pos, list(stack))
    return (True, r[0], list(r[1]))


def op_eval(req):
    """Runs in a worker: evaluate one operation on a prepared ParserState (interpreter and generated)."""
    from pest.state import ParserState

    from pestverif import budget, modes

    text = req["grammar"]
    parser, load = modes.get_parser(text)
    if parser is None:
        return {"load": load}
    module, gload, _src = modes.get_module(text)
    out = {"load": load, "gen_load": gload}

    def run(target_fn, state):
        for s in req["stack"]:
            state.push(s)
        try:
            (ok, _), = (budget.run_limited(lambda: target_fn(state, []), 200_000),)
        except budget.BudgetExceeded:
            return ("budget",)
        except Exception as err:  # noqa: BLE001
            return ("exc", type(err).__name__, modes._where(err), str(err)[:100])
        return ("ret", bool(ok), state.pos, list(state.user_stack))

    out["int"] = run(parser.rules["r"].parse, ParserState(req["text"], req["pos"], parser))
    if module is not None:
        out["gen"] = run(module.parse_r, ParserState(req["text"], req["pos"]))
    return out


def op_case_violation(res, mode, want):
    got = res.get("gen" if mode.endswith("gen") else "int")
    if got is None:
        return None
    if got[0] == "budget":
        return None
    if got[0] == "exc":
        return f"[{mode}] exc:{got[1]}@{got[2]}: operation raised {got[1]}: {got[3]}"
    g = (got[1], got[2], got[3])
    if g != want:
        kind = "stack/pos changed on failure" if not want[0] and not g[0] else "effect"
        return f"[{mode}] op-{kind}: python-pest (ok, pos, stack) = {g}; specification = {want}"
    return None


def op_replay(modes_obj, case):
    want = op_spec(gast_tup(case["op"]), case["stack"], case["text"], case["pos"], case.get("ws", False))
    if want is None:
        return None
    mode = case["mode"]
    worker = modes_obj.raw if mode.startswith("raw") else modes_obj.opt
    res = worker.call("pestverif.props.c05:op_eval", op_request(case))
    if res["load"][0] != "ok":
        return None
    return op_case_violation(res, mode, want)


def gast_tup(x):
    from pestverif.gast import tup

    return tup(x)


def op_request(case):
    op = gast_tup(case["op"])
    g = "r = _{ " + gprint.pr(op) + " }\n"
    if case.get("ws"):
        g += 'WHITESPACE = _{ " " }\n'
    return {"grammar": g, "stack": case["stack"], "text": case["text"], "pos": case["pos"]}


def run_ops(ctx: Ctx, modes, n):
    import hypothesis
    from hypothesis import HealthCheck, Phase, settings
    from hypothesis import strategies as st

    from pestverif.gast import to_json

    slices = st.tuples(st.sampled_from([None, 0, 1, 2, -1, -2]), st.sampled_from([None, 0, 1, 2, 3, -1]))
    ops = st.one_of(st.sampled_from(OPS), slices.map(lambda ab: ("slice", ab[0], ab[1])))
    entries = st.lists(st.sampled_from(["", "a", "b", "ab"]), max_size=4)
    texts = st.text(alphabet="ab ", max_size=7)

    @hypothesis.seed(ctx.sub_seed("ops"))
    @settings(max_examples=n, deadline=None, database=None, phases=[Phase.generate],
              suppress_health_check=list(HealthCheck))
    @hypothesis.given(ops, entries, texts, st.integers(0, 7), st.booleans())
    def t(op, stack, text, pos, ws):
        pos = min(pos, len(text))
        want = op_spec(op, stack, text, pos, ws)
        if want is None:
            ctx.count("ops_discarded_unspec")
            return
        case = {"kind": "op", "op": to_json(op), "stack": stack, "text": text, "pos": pos, "ws": ws}
        for side, worker in (("raw", modes.raw), ("opt", modes.opt)):
            res = worker.call("pestverif.props.c05:op_eval", op_request(case))
            if res["load"][0] != "ok":
                ctx.count("frontend_rejected:" + side)
                continue
            for mode in (side + "-int", side + "-gen"):
                ctx.evals += 1
                if stack or not want[0]:
                    ctx.nontrivial(["op", case, mode])
                bad = op_case_violation(res, mode, want)
                if bad:
                    opname = op[1] if op[0] == "id" else op[0]
                    ctx.violation(f"op:{mode}:{opname}:{bad.split(':')[0].split('] ')[1]}", {**case, "mode": mode}, bad)
        ctx.count("op_cases")
        if len(ctx.samples) < 5 and stack and len(ctx.samples) >= 3:
            ctx.sample({"op": gprint.pr(op), "stack": stack, "text": text, "pos": pos, "spec": list(want)})

    t()


# ----------------------------------------------------------------------------- history grammars


def history_expr(rng, depth=0):
    """A random expression that drives the stack through pushes, pops and nested checkpoints which are
    committed or rolled back ('!' never occurs in the input, '.' is the only input character)."""
    n = rng.randint(1, 4)
    items = []
    for _ in range(n):
        x = rng.random()
        if x < 0.30:
            items.append(("pushlit", rng.choice(["a", "b", "c", "d", ".", "ab"])))
        elif x < 0.50:
            items.append(("id", rng.choice(["DROP", "DROP", "POP", "PEEK"])))
        elif x < 0.58:
            items.append(("push", ("str", ".")))
        elif x < 0.63:
            items.append(("str", "."))
        elif depth < 3:
            body = history_expr(rng, depth + 1)
            body_fail = ("seq", (body, ("str", "!"))) if body[0] != "seq" else ("seq", body[1] + (("str", "!"),))
            k = rng.choice(["opt", "opt-fail", "alt-fail", "alt-fail", "and", "not-fail", "not", "star", "max", "minmax"])
            if k == "opt":
                items.append(("opt", body))
            elif k == "opt-fail":
                items.append(("opt", body_fail))
            elif k == "alt-fail":
                items.append(("alt", (body_fail, history_expr(rng, depth + 1))))
            elif k == "and":
                items.append(("and", body))
            elif k == "not-fail":
                items.append(("not", body_fail))
            elif k == "not":
                items.append(("opt", ("seq", (("not", body), ("str", "!")))))
            else:
                it = ("seq", (body, ("str", "."))) if body[0] != "seq" else ("seq", body[1] + (("str", "."),))
                if k == "star":
                    items.append(("star", it))
                elif k == "max":
                    items.append(("max", it, rng.randint(1, 2)))
                else:
                    items.append(("minmax", it, 0, rng.randint(1, 3)))
        else:
            items.append(("pushlit", rng.choice("abcd")))
    return items[0] if len(items) == 1 else ("seq", tuple(items))


def history_case(rng):
    """(rules, inputs) or None: r0 = { H ~ OBSERVE ~ EOI } with an input on which the reference succeeds, so
    that a wrong stack at the observation point makes python-pest disagree."""
    h = history_expr(rng)
    observe = rng.choice([("id", "PEEK_ALL"), ("id", "PEEK_ALL"), ("id", "POP_ALL"), ("slice", None, None)])
    rules = [("r0", rng.choice(["", "", "_", "@"]), ("seq", (h, observe, ("id", "EOI"))))]
    if ganalysis.Analysis(rules).problems(BUILTIN_IDS):
        return None
    prefix = "." * rng.randint(0, 5)
    ref = refpeg.Ref({}, prefix)
    try:
        res = ref.ev(h, 0, (), refpeg.N, False)
    except (refpeg.Unspecified, refpeg.Budget):
        return None
    if res is refpeg.FAIL:
        return None
    pos, stack = res[0], res[1]
    order = stack if observe[0] == "slice" else tuple(reversed(stack))
    good = prefix[:pos] + "".join(order)
    inputs = [good, good + ".", good[:-1] if good else ".", prefix]
    if stack:
        inputs.append(prefix[:pos] + "".join(reversed(order)))
    return rules, list(dict.fromkeys(inputs)), ref.stats


# ----------------------------------------------------------------------------- exhaustive nested histories

_LET = "abcdefghijklm"
_COMMIT = ("opt", "alt")
_ROLLBACK = ("opt-fail", "alt-fail", "and", "not-fail")


def _group(kind, inner):
    body = inner[0] if len(inner) == 1 else ("seq", inner)
    fail = ("seq", inner + (("str", "!"),))
    if kind == "opt":
        return ("opt", body)
    if kind == "alt":
        return ("alt", (body, ("str", "!")))
    if kind == "opt-fail":
        return ("opt", fail)
    if kind == "alt-fail":
        return ("alt", (fail, ("str", "")))
    if kind == "and":
        return ("and", body)
    if kind == "not-fail":
        return ("not", fail)
    raise ValueError(kind)


def enum_histories(budget, stack=(), nl=0, salt=0):
    """Every nested history of push / pop / checkpoint...commit / checkpoint...rollback with at most
    `budget` operations (a group costs 2), as (items, stack_after, next_letter, cost). Pops only on a
    non-empty model stack; pushed values are fresh letters, so every entry is distinguishable."""
    yield ((), stack, nl, 0)
    if budget <= 0:
        return
    firsts = [((("pushlit", _LET[nl]),), stack + (_LET[nl],), nl + 1, 1)]
    if stack:
        firsts.append(((("id", "DROP"),), stack[:-1], nl, 1))
    for it, st, n2, c in firsts:
        for rest, st2, n3, c2 in enum_histories(budget - c, st, n2, salt + 1):
            yield (it + rest, st2, n3, c + c2)
    if budget >= 3:
        for inner, sti, ni, ci in enum_histories(budget - 2, stack, nl, salt + 7):
            if ci == 0:
                continue
            kc = _COMMIT[(salt + ci + len(stack)) % 2]  # opt / alt
            kr = _ROLLBACK[(salt + ci + len(sti)) % len(_ROLLBACK)]
            for rest, st2, n3, c2 in enum_histories(budget - 2 - ci, sti, ni, salt + 3):
                yield ((_group(kc, inner),) + rest, st2, n3, 2 + ci + c2)
            for rest, st2, n3, c2 in enum_histories(budget - 2 - ci, stack, ni, salt + 5):
                yield ((_group(kr, inner),) + rest, st2, n3, 2 + ci + c2)


def run_exhaustive_histories(ctx: Ctx, modes, idx, bound):
    k = 0
    for items, stack, _nl, cost in enum_histories(bound):
        if cost == 0:
            continue
        k += 1
        if k % 16 != idx:
            continue
        observe = (("id", "PEEK_ALL"), ("id", "POP_ALL"), ("slice", None, None))[k // 16 % 3]
        order = stack if observe[0] == "slice" else tuple(reversed(stack))
        rules = [("r0", "", ("seq", items + (observe, ("id", "EOI"))))]
        good = "".join(order)
        inputs = [good] if len(stack) < 2 else [good, good[::-1]]
        ctx.count("exhaustive_histories")
        refdiff.check_grammar(ctx, modes, rules, [("r0", i, 0) for i in inputs], MODES,
                              lambda stats, want, call: bool(stats.get("stack_change_undone")), exhaustive=True)
        if len(ctx.samples) < 6 and cost == bound and idx == 3:
            ctx.sample({"exhaustive_history_grammar": gprint.grammar_text(rules), "inputs": inputs})
    ctx.exhaustive.update({"complete": True, "max_history_ops": bound})


def run_clear_matrix(ctx: Ctx, modes, idx):
    """POP_ALL (the only caller of Stack.clear) inside every kind of committed / rolled-back construct, for
    every small combination of: entries present before, entries dropped or popped first (down to a low-water
    mark of 0), fresh entries pushed before POP_ALL, entries pushed after it (seeded change S63). A rolled-back
    group is followed by a literal that consumes the text the group had consumed, so the tail is reached."""
    k = 0
    for n0 in range(4):
        for j in range(n0 + 1):
            for m in range(3):
                for after in range(2):
                    for kind in _COMMIT + _ROLLBACK:
                        for use_pop in (False, True):
                            if use_pop and j == 0:
                                continue
                            for outer in (None, "opt", "and"):
                                k += 1
                                if k % 16 != idx:
                                    continue
                                old = tuple(_LET[i] for i in range(n0))
                                pre = tuple(("pushlit", c) for c in old)
                                stack = list(old)
                                inner, text = [], ""
                                for _ in range(j):
                                    top = stack.pop()
                                    if use_pop:
                                        inner.append(("id", "POP"))
                                        text += top
                                    else:
                                        inner.append(("id", "DROP"))
                                for i in range(m):
                                    inner.append(("pushlit", "xyz"[i]))
                                    stack.append("xyz"[i])
                                inner.append(("id", "POP_ALL"))
                                text += "".join(reversed(stack))
                                stack = []
                                for i in range(after):
                                    inner.append(("pushlit", "w"))
                                    stack.append("w")
                                grp = _group(kind, tuple(inner))
                                if kind in _ROLLBACK:
                                    stack = list(old)
                                    body = (grp, ("str", text))
                                else:
                                    body = (grp,)
                                if outer == "opt":
                                    body = (("opt", ("seq", body) if len(body) > 1 else body[0]),)
                                elif outer == "and":
                                    body = (("and", ("seq", body) if len(body) > 1 else body[0]), ("str", text))
                                    stack = list(old)
                                for observe in (("id", "PEEK_ALL"), ("slice", None, None)):
                                    order = tuple(stack) if observe[0] == "slice" else tuple(reversed(stack))
                                    rules = [("r0", "", ("seq", pre + body + (observe, ("id", "EOI"))))]
                                    good = text + "".join(order)
                                    inputs = [good] if len(stack) < 2 else [good, text + "".join(reversed(order))]
                                    if old and tuple(stack) != old:
                                        inputs.append(text + "".join(reversed(old)))
                                        inputs.append(text + "".join(old))
                                    inputs = list(dict.fromkeys(inputs))
                                    ctx.count("clear_matrix_grammars")
                                    refdiff.check_grammar(ctx, modes, rules, [("r0", i, 0) for i in inputs], MODES,
                                                          lambda stats, want, call: bool(stats.get("stack_change_undone")),
                                                          exhaustive=True)
                                    if len(ctx.samples) < 8 and kind == "alt-fail" and n0 == 2 and j == 2 and m == 1 and outer is None:
                                        ctx.sample({"clear_matrix_grammar": gprint.grammar_text(rules), "inputs": inputs})


# ----------------------------------------------------------------------------- plumbing


def shards(tier: str):
    return [{"idx": i} for i in range(16)]


def run_shard(ctx: Ctx, spec):
    import hypothesis
    from hypothesis import HealthCheck, Phase, settings
    from hypothesis import strategies as st

    from pestverif.findings import excluder
    from pestverif.modes import Modes

    modes = Modes()
    excluded = excluder(ID)
    size = SIZES[ctx.tier]
    try:

        @hypothesis.seed(ctx.sub_seed("random"))
        @settings(max_examples=size["grammars"], deadline=None, database=None, phases=[Phase.generate],
                  suppress_health_check=list(HealthCheck))
        @hypothesis.given(st.randoms(use_true_random=False))
        def t(rng):
            feats = set(ggen.PROFILES["stack"])
            if rng.random() < 0.25:
                feats |= {"trivia"}
            rules = ggen.Gen(rng, feats, max_rules=4).grammar()
            probs = ganalysis.Analysis(rules).problems(BUILTIN_IDS)
            if probs:
                raise RuntimeError(f"generator produced an ill-formed grammar: {probs} {rules}")
            starts = [n for n, _, _ in rules if n.startswith("r")]
            inputs = ggen.inputs_for(rng, rules, starts[:2], 10, maxlen=12)
            calls = [(s, inp, 0) for inp in inputs for s in starts[:2]]
            ctx.count("grammars")
            refdiff.check_grammar(ctx, modes, rules, calls, MODES, nontrivial, excluded=excluded)
            if len(ctx.samples) < 3:
                ctx.sample({"grammar": gprint.grammar_text(rules), "inputs": inputs[:6]})

        t()

        @hypothesis.seed(ctx.sub_seed("history-grammars"))
        @settings(max_examples=size["hist"], deadline=None, database=None, phases=[Phase.generate],
                  suppress_health_check=list(HealthCheck))
        @hypothesis.given(st.randoms(use_true_random=False))
        def th(rng):
            case = history_case(rng)
            if case is None:
                ctx.count("history_grammars_discarded")
                return
            rules, inputs, stats = case
            ctx.count("history_grammars")
            if stats.get("stack_change_undone"):
                ctx.count("history_grammars_with_undo")
            refdiff.check_grammar(ctx, modes, rules, [("r0", i, 0) for i in inputs], MODES, nontrivial, excluded=excluded)
            if len(ctx.samples) < 5 and stats.get("stack_change_undone", 0) >= 2:
                ctx.sample({"grammar": gprint.grammar_text(rules), "inputs": inputs})

        th()
        run_exhaustive_histories(ctx, modes, spec["idx"], size["exh"])
        run_clear_matrix(ctx, modes, spec["idx"])
        run_ops(ctx, modes, size["ops"])
    finally:
        modes.close()


def replay(case):
    from pestverif.modes import Modes

    if case.get("kind") != "op":
        return refdiff.std_replay(case)
    m = Modes()
    try:
        return op_replay(m, case)
    finally:
        m.close()


def shrink(case):
    if case.get("kind") != "op":
        return refdiff.std_shrink(case)
    from pestverif.modes import Modes

    m = Modes()
    try:
        best = dict(case)
        first = op_replay(m, best)
        if not first:
            return case
        cls = first.split(":")[0]

        def fails(c):
            r = op_replay(m, c)
            return bool(r) and r.split(":")[0] == cls

        changed = True
        while changed:
            changed = False
            cands = []
            for i in range(len(best["stack"])):
                cands.append({**best, "stack": best["stack"][:i] + best["stack"][i + 1 :]})
            for i in range(len(best["text"])):
                t2 = best["text"][:i] + best["text"][i + 1 :]
                cands.append({**best, "text": t2, "pos": min(best["pos"], len(t2))})
            if best["pos"] > 0:
                cands.append({**best, "pos": best["pos"] - 1})
            if best.get("ws"):
                cands.append({**best, "ws": False})
            for c in cands:
                if fails(c):
                    best, changed = c, True
                    break
        return best
    finally:
        m.close()
