"""C10 - the grammar front end accepts exactly pest v2 syntax and builds the denoted structure."""

from __future__ import annotations

import re

from pestverif import gast, meta
from pestverif.runner import Ctx

ID = "C10"
RULE = (
    "texts: (1) random derivations from the transcribed meta-grammar with WHITESPACE/COMMENT injected where "
    "its non-atomic sequences allow it; (2) random grammar ASTs (profile full, renamed to identifiers such "
    "as POPULATION, PEEKABOO, _x, one-letter tags, doc comments, trailing ///) printed in a randomised free "
    "layout (stacked postfix operators, &! chains, every escape spelling, spaced PEEK[ a .. b ], ^ \"x\", "
    "nested block comments, leading |); (3) the 15 bundled .pest files; (4) single-token mutations (delete, "
    "duplicate, swap, substitute from a vocabulary) of all of these; (5) a deterministic matrix of about 4,700 texts: "
    "every escape form, intact and damaged (each hex digit position x characters a lenient integer parser "
    "tolerates, truncations, wrong case, stray blanks), in every literal position. Oracle: the transcribed meta-grammar "
    "run by the reference evaluator decides validity (self-checked as a fix-point of tests/grammars/meta.pest "
    "in every run); Parser.from_grammar(text, optimizer=None) must accept exactly the valid texts (valid "
    "texts with a semantic hazard pest's validator would reject are skipped on the accept side), and for "
    "accepted, hazard-free texts the rules must have the names, order, modifiers, /// and //! docs, operator "
    "tree, repetition bounds, PEEK slice bounds, decoded literals and tags the text denotes (both sides "
    "normalised: untagged parentheses removed, same-operator sequences/choices flattened, tags pushed down to "
    "the primary, tags on terminals ignored). Non-trivial: valid text with >= 1 rule and >= 3 expression "
    "nodes, or invalid text whose first rule is complete; distinct by hash of the text."
)
ASSUMPTIONS = [
    "the transcription of the meta-grammar is trusted after its fix-point self-check",
    "semantic hazards (duplicate rules, reversed ranges, {0}, min > max, code points beyond U+10FFFF or "
    "surrogates, rules named like built-ins or keywords, numbers beyond pest's u32 / i32) are not syntax: either outcome is accepted for them",
]
SIZES = {"quick": {"derive": 150, "free": 150, "mut": 4}, "thorough": {"derive": 4000, "free": 4000, "mut": 12}}
NAMES = ["a", "b1", "_x", "POPULATION", "PEEKABOO", "DROPS", "POP_CORN", "PEEK_ALL_X", "ANYTHING", "EOIX", "rule_", "Z9",
         "aB", "SOIL", "PEEKS", "POPS", "DROP_IT", "x_y_z", "__", "ASCII_X"]
TAGS = ["t", "x", "_u", "tag1", "T", "ab", "_"]
_TOKEN = re.compile(
    r"\"(?:[^\"\\]|\\.)*\"|'(?:[^'\\]|\\[^u]|\\u\{[^}]*\})'|//[^\n]*|/\*.*?\*/|[A-Za-z_][A-Za-z0-9_]*|-?[0-9]+|\.\.|\s+|.",
    re.S,
)
SUBST = ["-0", "-00", "-01", "00", "99999999999", "PEEK[-0..]", "PEEK[-01..02]", "~", "|", "?", "*", "+", "{", "}", "(", ")", "[", "]", "=", "_", "@", "$", "!", "&", "^", "#t =", "..", ",", "1",
         '"s"', "'c'", "x", "PUSH", "PEEK", "POP", "{2}", "{,}", "'a'..'b'", "/*", "*/", "//", "///", "//!", "\\", "#"]


# ----------------------------------------------------------------------------- worker side


def load(req):
    """Worker (raw): accept/reject and, if accepted, the structure built by python-pest."""
    import pest

    from pestverif import budget, modes, pyadapter

    out = []
    for text in req["texts"]:
        try:
            (parser, _) = budget.run_limited(lambda t=text: pest.Parser.from_grammar(t, optimizer=None), 30_000_000)
        except pest.PestGrammarError as err:
            out.append(("rejected", type(err).__name__, modes._safe_str(err).split("\n")[0][:120]))
            continue
        except budget.BudgetExceeded:
            out.append(("exc", "Budget", "", ""))
            continue
        except RecursionError:
            out.append(("exc", "RecursionError", "", ""))
            continue
        except Exception as err:  # noqa: BLE001
            out.append(("exc", type(err).__name__, modes._where(err), modes._safe_str(err)[:120]))
            continue
        try:
            out.append(("accepted", pyadapter.structure(parser)))
        except pyadapter.UnknownNode as err:
            out.append(("accepted-unknown-node", str(err)))
    return out


# ----------------------------------------------------------------------------- oracle side


def py_builtin_names():
    import pest

    return set(pest.Parser.BUILTIN) | {"PEEK", "POP", "DROP", "PEEK_ALL", "POP_ALL", "PUSH", "PUSH_LITERAL", "SKIP"}


def hazards(g, builtin_names) -> list[str]:
    out = []
    names = [r[0] for r in g["rules"]]
    if len(set(names)) != len(names):
        out.append("duplicate rules")
    for n in names:
        if n in builtin_names:
            out.append(f"rule named like a built-in: {n}")
    for r in g["rules"]:
        for n in gast.walk(r[2]):
            if n[0] == "range" and n[1] > n[2]:
                out.append("reversed range")
            if n[0] in ("exact", "max") and n[2] == 0:
                out.append("{0}")
            if n[0] == "minmax" and (n[3] == 0 or n[3] < n[2]):
                out.append("min > max")
            # pest parses repetition counts as u32 and PEEK bounds as i32 after the syntax check and rejects what
            # does not fit; python-pest may accept or reject such numbers
            if n[0] in ("exact", "min", "max", "minmax") and any(isinstance(v, int) and v > 0xFFFFFFFF for v in n[2:]):
                out.append("number beyond u32")
            if n[0] == "slice" and any(isinstance(v, int) and not -0x80000000 <= v <= 0x7FFFFFFF for v in n[1:]):
                out.append("number beyond i32")
            if n[0] in ("str", "ci", "pushlit", "range"):
                for s in n[1:]:
                    if isinstance(s, str) and any(0xD800 <= ord(c) < 0xE000 for c in s):
                        out.append("surrogate code point")
    return out


_NOPAIR = ("str", "ci", "range", "pushlit", "slice")


def push_tags(e, builtin_names):
    """Canonical tag placement: on the primary of the term; dropped when the primary cannot yield a pair."""
    k = e[0]
    if k == "tag":
        t, inner = e[1], push_tags(e[2], builtin_names)
        spine = []
        node = inner
        while node[0] in gast.POSTFIX or node[0] in gast.PREFIX:
            spine.append(node)
            node = node[1]
        if node[0] == "tag":
            pass  # already tagged below: keep the inner one, drop this one (unspecified double tagging)
        elif node[0] in _NOPAIR or (node[0] == "id" and node[1] in builtin_names and node[1] != "EOI"):
            pass  # a tag on a terminal can never label a pair: don't care
        else:
            node = ("tag", t, node)
        for s in reversed(spine):
            node = (s[0], node) + tuple(s[2:])
        return node
    return gast.with_children(e, [push_tags(c, builtin_names) for c in gast.children(e)])


def canon(e, builtin_names):
    def strip_groups(x):
        k = x[0]
        if k == "tag" and x[2][0] == "grp":
            return ("tag", x[1], ("grp", strip_groups(x[2][1])))
        if k == "grp":
            return strip_groups(x[1])
        return gast.with_children(x, [strip_groups(c) for c in gast.children(x)])

    def flatten(x):
        x = gast.with_children(x, [flatten(c) for c in gast.children(x)])
        if x[0] in ("seq", "alt"):
            items = []
            for c in x[1]:
                if c[0] == x[0]:
                    items.extend(c[1])
                else:
                    items.append(c)
            return (x[0], tuple(items))
        return x

    return flatten(strip_groups(push_tags(e, builtin_names)))


def compare_structure(g, got, builtin_names) -> str | None:
    want_rules = [(n, m, canon(e, builtin_names), tuple(d)) for n, m, e, d, _s in g["rules"]]
    got_rules = [(n, m, canon(gast.tup(e), builtin_names), tuple(d)) for n, m, e, d in got["rules"]]
    if [r[0] for r in want_rules] != [r[0] for r in got_rules]:
        return f"names: rule names/order {[r[0] for r in got_rules]} != {[r[0] for r in want_rules]}"
    for w, p in zip(want_rules, got_rules):
        if w[1] != p[1]:
            return f"modifier: rule {w[0]} has modifier {p[1]!r}, the text says {w[1]!r}"
        if w[2] != p[2]:
            return f"expression: rule {w[0]} was built as {p[2]}, the text denotes {w[2]}"
        if w[3] != p[3]:
            return f"rule-doc: rule {w[0]} has doc {p[3]!r}, the text says {w[3]!r}"
    if list(got["docs"]) != list(g["docs"]):
        return f"grammar-doc: parser.doc is {got['docs']!r}, the text says {g['docs']!r}"
    return None


def judge(text, out, builtin_names):
    """(violation class or None, detail, nontrivial, info)."""
    try:
        g = meta.parse_grammar(text)
        hz = hazards(g, builtin_names) if g is not None else []
    except (ValueError, OverflowError):
        g = "hazard"
        hz = ["code point out of range"]
    except refpeg_budget():
        return None, "", False, "oracle-budget"
    valid = g is not None
    accepted = out[0].startswith("accepted")
    if out[0] == "exc" and out[1] in ("Budget", "RecursionError"):
        return None, "", False, "inconclusive"
    nsize = 0
    if valid and g != "hazard":
        nsize = sum(gast.size(r[2]) for r in g["rules"])
    nontrivial = (valid and g != "hazard" and len(g["rules"]) >= 1 and nsize >= 3) or (
        not valid and re.search(r"=\s*[_@$!]?\s*\{[^{}]*\}", text) is not None
    )
    if valid and not accepted:
        if hz:
            return None, "", nontrivial, "hazard-skip"
        return "rejects-valid", f"valid pest grammar rejected: {out[1:]}", nontrivial, "valid"
    if not valid and accepted:
        return "accepts-invalid", "text is not derivable from pest's meta-grammar but was accepted", nontrivial, "invalid"
    if valid and accepted and not hz and g != "hazard":
        if out[0] == "accepted-unknown-node":
            return None, "", nontrivial, "unknown-node"
        bad = compare_structure(g, out[1], builtin_names)
        if bad:
            return "structure:" + bad.split(":")[0], bad, nontrivial, "valid"
    return None, "", nontrivial, "valid" if valid else "invalid"


def refpeg_budget():
    from pestverif.refpeg import Budget

    return Budget


# ----------------------------------------------------------------------------- generation


def rename(rules, rng):
    names = [n for n, _, _ in rules]
    pool = list(NAMES)
    rng.shuffle(pool)
    mapping = {}
    for n in names:
        if n in ("WHITESPACE", "COMMENT"):
            mapping[n] = n
        else:
            mapping[n] = pool.pop() if pool else n

    def ren(e):
        if e[0] == "id" and e[1] in mapping:
            return ("id", mapping[e[1]])
        if e[0] == "tag":
            return ("tag", rng.choice(TAGS), ren(e[2]))
        return gast.with_children(e, [ren(c) for c in gast.children(e)])

    return [(mapping[n], m, ren(e)) for n, m, e in rules]


def free_text(rng):
    from pestverif import ggen
    from pestverif.gfree import Free

    rules = rename(ggen.Gen(rng, ggen.PROFILES["full"], max_rules=4, max_depth=3).grammar(), rng)
    # sprinkle tags on arbitrary terms (python-pest only generates them on identifiers/groups via ggen)
    gdocs = [rng.choice([" grammar doc", "", "x", "  two spaces", " é"]) for _ in range(rng.choice([0, 0, 1, 2]))]
    rdocs = {n: [rng.choice([" rule doc", "", "/ extra slash", "\tTab"]) for _ in range(rng.choice([0, 0, 1, 2]))] for n, _, _ in rules}
    trailing = [" trailing"] if rng.random() < 0.1 else []
    return Free(rng).grammar(rules, gdocs=gdocs, rdocs=rdocs, trailing_docs=trailing)


def derived_text(rng):
    from pestverif import ggen

    d = ggen.Deriver(rng, meta.META)
    return d.der(("id", "grammar_rules"), "N", 9)


def token_mutations(rng, text, n):
    toks = _TOKEN.findall(text)
    out = []
    if not toks:
        return [rng.choice(SUBST)]
    for _ in range(n):
        t = list(toks)
        i = rng.randrange(len(t))
        k = rng.randrange(4)
        if k == 0:
            del t[i]
        elif k == 1:
            t.insert(i, t[i])
        elif k == 2 and len(t) > 1:
            j = rng.randrange(len(t))
            t[i], t[j] = t[j], t[i]
        else:
            t[i] = rng.choice(SUBST)
        out.append("".join(t))
    return out


BAD_DIGITS = ["+", "-", "_", " ", "\uff14", "g", "G", "\u0663", "x", "\t", "", "\u0660", "Z", ".", "}"]


def literal_matrix():
    """Deterministic matrix: every escape form, intact and damaged (each hex digit position x each character that
    a lenient integer parser would tolerate, truncations, wrong case, stray blanks), in every literal position
    (string, case-insensitive string, PUSH_LITERAL argument, both ends of a character range). The meta-grammar
    oracle decides which texts are valid and what the valid ones denote."""
    bodies = ["\\n", "\\r", "\\t", "\\\\", "\\0", '\\"', "\\'", "\\x41", "\\x7f", "\\xFF", "\\xe9", "\\u{41}", "\\u{0041}",
              "\\u{10FFFF}", "\\u{00e9}", "\\u{1F600}", "\\u{000041}", "a", "\u00e9", "'", '"']
    for esc in ("\\x41", "\\xe9", "\\u{41}", "\\u{0041}", "\\u{10FFFF}", "\\u{00e9}"):
        first = 2 if esc[1] == "x" else 3
        last = len(esc) if esc[1] == "x" else len(esc) - 1
        for i in range(first, last):
            for bad in BAD_DIGITS:
                bodies.append(esc[:i] + bad + esc[i + 1 :])
                bodies.append(esc[:i] + bad + esc[i:])  # inserted rather than replaced
    bodies += ["\\", "\\x", "\\x4", "\\u", "\\u{", "\\u{}", "\\u{4", "\\u{41", "\\u41}", "\\u{1234567}", "\\u{110000}",
               "\\u{D800}", "\\q", "\\N", "\\X41", "\\U{41}", "\\ ", "\\u{ 41}", "\\u{41 }", "\\x 4", "\\x4 1", "\\u {41}",
               "\\\\n", "\\\\x41", "\\\\u{41}", "\\\\\\", "\\\\\\\\", "\\\\\\n"]
    out = []
    for b in dict.fromkeys(bodies):
        out.append('a = { "' + b + '" }')
        out.append('a = { "z' + b + 'z" }')
        out.append('a = { ^"' + b + '" }')
        out.append('a = { ^"k' + b + 'K" }')
        out.append('a = { PUSH_LITERAL("' + b + '") ~ PEEK }')
        out.append("a = { '" + b + "'..'\\u{10FFFF}' }")
        out.append("a = { '\\u{0}'..'" + b + "' }")
    # keywords vs identifiers: every stack keyword x suffix, as rule name, as reference and as tag
    for kw in ("PUSH", "PEEK", "POP", "DROP", "PEEK_ALL", "POP_ALL", "PUSH_LITERAL"):
        for suf in ("", "X", "_", "1", "_ALL", "ED", "_LITERAL", "_LITERALS", "x", "S"):
            name = kw + suf
            out.append(name + ' = { "a" }')
            out.append("a = { " + name + ' }\nb = { "x" }')
            out.append("a = { b ~ " + name + ' }\nb = { "x" }\n' + name + ' = { "y" }')
            out.append("a = { #" + name + ' = b }\nb = { "x" }')
            out.append("a = { x" + name + ' }\nx' + name + ' = { "x" }')
    return out


# ----------------------------------------------------------------------------- plumbing


def selftest(tier):
    return meta.selfcheck()


def shards(tier: str):
    return [{"idx": i} for i in range(16)]


def run_texts(ctx: Ctx, worker, texts, label, builtin_names):
    texts = list(dict.fromkeys(texts))
    for b in range(0, len(texts), 100):
        part = texts[b : b + 100]
        outs = worker.call("pestverif.props.c10:load", {"texts": part})
        for text, out in zip(part, outs):
            cls, detail, nt, info = judge(text, out, builtin_names)
            ctx.evals += 1
            ctx.count(f"{label}:{info}")
            if nt:
                ctx.nontrivial(text)
            if cls:
                sub = ""
                if cls == "rejects-valid":
                    sub = ":" + re.sub(r"[^a-z ]", "", str(out[2] if len(out) > 2 else out[1]).lower())[:28].strip()
                ctx.violation(f"{cls}{sub}", {"text": text}, detail)


def run_shard(ctx: Ctx, spec):
    import random

    from pestverif.meta import bundled_grammar_files
    from pestverif.modes import Worker

    idx = spec["idx"]
    size = SIZES[ctx.tier]
    rng = random.Random(ctx.sub_seed("c10"))
    worker = Worker("raw")
    try:
        names = worker.call("pestverif.props.c10:py_builtin_names", None) if False else None
    except Exception:  # noqa: BLE001
        names = None
    try:
        builtin_names = builtin_name_set()
        # (3) bundled files + mutations
        for j, f in enumerate(bundled_grammar_files()):
            if j % 16 != idx:
                continue
            text = open(f, encoding="utf-8").read()
            run_texts(ctx, worker, [text], "bundled", builtin_names)
            run_texts(ctx, worker, token_mutations(rng, text, size["mut"] * 10), "bundled-mutation", builtin_names)
        # (4) deterministic literal / escape matrix
        lm = literal_matrix()
        run_texts(ctx, worker, [t for j, t in enumerate(lm) if j % 16 == idx], "literal-matrix", builtin_names)
        ctx.exhaustive.update({"literal_matrix_texts": len(lm)})
        # (2) free layout
        for i in range(size["free"]):
            text = free_text(rng)
            run_texts(ctx, worker, [text], "free", builtin_names)
            run_texts(ctx, worker, token_mutations(rng, text, size["mut"]), "free-mutation", builtin_names)
            if len(ctx.samples) < 2:
                ctx.sample({"kind": "free layout", "text": text[:300]})
        # (1) derivations from the meta-grammar
        for i in range(size["derive"]):
            text = derived_text(rng)
            run_texts(ctx, worker, [text], "derived", builtin_names)
            run_texts(ctx, worker, token_mutations(rng, text, size["mut"]), "derived-mutation", builtin_names)
            if len(ctx.samples) < 4 and len(text) > 20:
                ctx.sample({"kind": "meta-grammar derivation", "text": text[:300]})
    finally:
        worker.close()


def builtin_name_set():
    # names only (not behaviour) are read from the implementation: which rule names count as built-ins
    import pest

    return set(pest.Parser.BUILTIN) | {"PEEK", "POP", "DROP", "PEEK_ALL", "POP_ALL", "PUSH", "PUSH_LITERAL", "SKIP"}


def replay(case):
    from pestverif.modes import Worker

    w = Worker("raw")
    try:
        out = w.call("pestverif.props.c10:load", {"texts": [case["text"]]})[0]
        cls, detail, _, _ = judge(case["text"], out, builtin_name_set())
        return f"{cls}: {detail}" if cls else None
    finally:
        w.close()


def shrink(case):
    from pestverif.modes import Worker
    from pestverif.shrink import ddmin_list

    w = Worker("raw")
    try:
        names = builtin_name_set()

        def cls_of(t):
            out = w.call("pestverif.props.c10:load", {"texts": [t]})[0]
            return judge(t, out, names)[0]

        first = cls_of(case["text"])
        if not first:
            return case
        toks = _TOKEN.findall(case["text"])
        toks = ddmin_list(toks, lambda ts: cls_of("".join(ts)) == first, 250)
        text = "".join(toks)
        # then character level
        from pestverif.shrink import ddmin_str

        text = ddmin_str(text, lambda t: cls_of(t) == first, 250)
        return {"text": text}
    finally:
        w.close()
