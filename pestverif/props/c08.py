"""C08 - meaning-preserving grammar rewrites leave every parse result unchanged (metamorphic)."""

from __future__ import annotations

import os

from pestverif import rewrite
from pestverif.runner import Ctx, repo_root

ID = "C08"
RULE = (
    "for each of the 11 bundled grammars of the nine families (json x2, toml, sql, http, jsonpath, calculator "
    "x2, lists, ini, csv) the meta-grammar oracle yields every expression, term and node with its source "
    "span; a case applies 1-3 rewrites, each (kind, site) drawn at random from: redundant parentheses, "
    "re-association of a contiguous sub-run of a ~-run or |-run, extraction into a fresh silent rule, "
    "X -> ((X) | (X)), X -> (((X) ~ NEVER) | (X)), X -> ((!(X) ~ NEVER) | (X)) with NEVER a private-use literal "
    "absent from every input; rewrites are text splices re-validated by the meta-grammar after every step; plus, "
    "deterministically, every nested pair (outer duplicating rewrite x any inner rewrite inside its first copy) at "
    "every site that touches the stack (lists.pest). "
    "Inputs: corpus inputs from the repository's tests/examples (valid) and 1-3-character mutations of them "
    "(mostly invalid). Oracle: same outcome class and same tree as the original grammar in raw-int, raw-gen, "
    "opt-int, opt-gen (failure positions/labels are not compared). Non-trivial: the original parse succeeded "
    "and the rule containing the site produced a pair (or is silent), or it failed beyond offset 0; distinct "
    "by hash of (grammar, rewrite list, input, mode)."
)
ASSUMPTIONS = [
    "(X ~ NEVER) legitimately moves the furthest failure, so failure positions and labels are not compared",
    "rewritten texts are validated by the meta-grammar oracle; an invalid one is a harness error (exit 2)",
]
SIZES = {"quick": {"cases": 40, "mut": 2}, "thorough": {"cases": 1500, "mut": 6}}
FAMILIES = [
    "tests/grammars/json.pest", "examples/json/json.pest", "tests/grammars/toml.pest", "tests/grammars/sql.pest",
    "tests/grammars/http.pest", "examples/jsonpath/jsonpath.pest", "examples/calculator/calculator.pest",
    "examples/calculator/grammar_encoded_prec.pest", "tests/grammars/lists.pest", "examples/ini/ini.pest",
    "examples/csv/csv.pest",
]


def meta_parse(text):
    from pestverif import meta

    return meta.parse_grammar(text)


def names_in(tree):
    out = set()
    for n, _s, _e, _t, c in tree:
        out.add(n)
        out |= names_in(c)
    return out


def compare(a, b):
    if a[0] not in ("ok", "fail") or b[0] in ("budget", "recursion"):
        return "skip"
    if b[0] == "exc":
        return f"exc:{b[1]}@{b[2]}"
    if a[0] != b[0]:
        return f"{b[0]}-vs-original-{a[0]}"
    if a[0] == "ok" and a[1] != b[1]:
        return "tree"
    return None


def evaluate(modes, text, calls):
    """{mode: outcomes} for one grammar text."""
    out = {}
    for side, w in (("raw", modes.raw), ("opt", modes.opt)):
        res = w.call("pestverif.modes:eval_grammar", {"text": text, "calls": calls, "gen": True})
        if res["load"][0] != "ok":
            out[side + "-int"] = out[side + "-gen"] = ("load", res["load"])
            continue
        out[side + "-int"] = res["int"]
        out[side + "-gen"] = res["gen"] if res["gen_load"] and res["gen_load"][0] == "ok" else ("genload", res["gen_load"])
    return out


def eval_case(modes, case):
    orig = open(os.path.join(repo_root(), case["grammar_file"]), encoding="utf-8").read()
    new = case["rewritten"]
    call = (case["rule"], case["input"], 0)
    mode = case["mode"]
    a = evaluate(modes, orig, [call])[mode]
    b = evaluate(modes, new, [call])[mode]
    if isinstance(a, tuple) and a and a[0] in ("load", "genload"):
        return None
    if isinstance(b, tuple) and b and b[0] in ("load", "genload"):
        return f"[{mode}] rewritten-{b[0]}: the rewritten grammar does not load: {b[1]}"
    cls = compare(a[0], b[0])
    if cls in (None, "skip"):
        return None
    return f"[{mode}] {cls}: original {str(a[0])[:300]} vs rewritten {str(b[0])[:300]} (rewrites: {case['log']})"


def shards(tier: str):
    return [{"idx": i} for i in range(16)]


def run_shard(ctx: Ctx, spec):
    import random

    from pestverif import ggen
    from pestverif.corpus import index
    from pestverif.meta import grammar_facts
    from pestverif.modes import Modes

    size = SIZES[ctx.tier]
    idx = spec["idx"]
    modes = Modes()
    corpus = index()
    try:
        for gi, gpath in enumerate(FAMILIES):
            text = open(os.path.join(repo_root(), gpath), encoding="utf-8").read()
            facts = grammar_facts(text)
            rng = random.Random(ctx.sub_seed("c08", gpath))
            # inputs: pick the corpus entries of this grammar, a few rules each
            entries = [e for e in corpus if e["grammar"] == gpath]
            calls = []
            for e in entries:
                for inp in e["inputs"][:3]:
                    if rewrite.NEVER_TEXT in inp:
                        continue
                    calls.append((e["rule"], inp, 0))
                    alpha = "".join(sorted(set(inp)))[:60] or "a"
                    for _ in range(size["mut"]):
                        m = inp
                        for _ in range(rng.randint(1, 3)):
                            m = ggen.mutate(rng, m, alpha)
                        calls.append((e["rule"], m, 0))
            calls = list(dict.fromkeys(calls))
            rng.shuffle(calls)
            calls = calls[: 40 if ctx.tier == "quick" else 200]
            if not calls:
                continue
            base = None
            ncases = size["cases"]
            for ci in range(ncases):
                if (ci + gi) % 16 != idx:
                    continue
                crng = random.Random(ctx.sub_seed("case", gpath, ci))
                new, log = rewrite.rewrite(text, crng, crng.randint(1, 3))
                if base is None:
                    base = evaluate(modes, text, calls)
                got = evaluate(modes, new, calls)
                ctx.count("rewrite_cases")
                for kind, _r, _s in log:
                    ctx.count("rewrite:" + kind)
                site_rules = {r for _k, r, _s in log}
                for mode in ("raw-int", "raw-gen", "opt-int", "opt-gen"):
                    a, b = base[mode], got[mode]
                    if isinstance(a, tuple) and a and a[0] in ("load", "genload"):
                        ctx.count("original_unloadable:" + mode)
                        continue
                    mk = lambda call, mode=mode: {"grammar_file": gpath, "rewritten": new, "log": [list(x) for x in log],  # noqa: E731
                                                  "rule": call[0], "input": call[1], "mode": mode}
                    if isinstance(b, tuple) and b and b[0] in ("load", "genload"):
                        ctx.violation(f"{mode}:rewritten-{b[0]}", mk(calls[0]), f"rewritten grammar does not load: {b[1]} (rewrites {log})")
                        continue
                    for call, oa, ob in zip(calls, a, b):
                        ctx.evals += 1
                        cls = compare(oa, ob)
                        if cls == "skip":
                            ctx.count("skipped")
                            continue
                        if oa[0] == "ok":
                            seen = names_in(oa[1])
                            nt = any(r in seen or r in facts["silent"] for r in site_rules)
                        else:
                            nt = oa[1] > 0
                        if nt:
                            ctx.nontrivial([gpath, log, call, mode])
                        if cls is not None:
                            kinds = "+".join(sorted({k for k, _r, _s in log}))
                            ctx.violation(f"{mode}:{cls}:{kinds if len(log) == 1 else 'multi'}", mk(call),
                                          f"original {str(oa)[:300]} vs rewritten {str(ob)[:300]} (rewrites: {log})")
                if len(ctx.samples) < 3:
                    ctx.sample({"grammar_file": gpath, "rewrites": [list(x) for x in log], "inputs": [c[1][:40] for c in calls[:3]]})

            # deterministic nested pairs at every site that touches the stack (only lists.pest has such sites): an outer
            # duplicating rewrite with every inner rewrite applied inside the FIRST copy - the attempt that is (or may
            # be) abandoned after stack operations inside it have succeeded
            stack_sites = [c for c in dict.fromkeys(rewrite.candidates(rewrite.sites_of(text), "parens"))
                           if any(k in text[c[0]:c[1]] for k in ("PUSH", "POP", "DROP", "PEEK")) and c[1] - c[0] <= 120]
            nested = [(site, outer, inner) for site in stack_sites for outer in ("dup", "seq-never", "not-never")
                      for inner in ("dup", "seq-never", "not-never", "parens", "extract")]
            for ni, ((start, end, rule), outer, inner) in enumerate(nested):
                if (ni + gi) % 16 != idx:
                    continue
                g0 = rewrite.sites_of(text)
                t1 = rewrite.apply(text, outer, start, end, rewrite.fresh(g0, 0))
                off = {"dup": 2, "seq-never": 3, "not-never": 4}[outer]
                new = rewrite.apply(t1, inner, start + off, start + off + (end - start), rewrite.fresh(g0, 1))
                if meta_parse(new) is None:
                    raise rewrite.RewriteError(f"nested rewrite {outer}/{inner} of {text[start:end]!r} produced an invalid grammar")
                log = [(outer, rule, text[start:end][:60]), (inner, rule, "first copy")]
                if base is None:
                    base = evaluate(modes, text, calls)
                got = evaluate(modes, new, calls)
                ctx.count("nested_stack_site_cases")
                for mode in ("raw-int", "raw-gen", "opt-int", "opt-gen"):
                    a, b = base[mode], got[mode]
                    if isinstance(a, tuple) and a and a[0] in ("load", "genload"):
                        continue
                    mk = lambda call, mode=mode: {"grammar_file": gpath, "rewritten": new, "log": [list(x) for x in log],  # noqa: E731
                                                  "rule": call[0], "input": call[1], "mode": mode}
                    if isinstance(b, tuple) and b and b[0] in ("load", "genload"):
                        ctx.violation(f"{mode}:rewritten-{b[0]}", mk(calls[0]), f"rewritten grammar does not load: {b[1]} (rewrites {log})")
                        continue
                    for call, oa, ob in zip(calls, a, b):
                        ctx.evals += 1
                        cls = compare(oa, ob)
                        if cls in (None, "skip"):
                            continue
                        ctx.violation(f"{mode}:{cls}:nested-stack-site", mk(call),
                                      f"original {str(oa)[:300]} vs rewritten {str(ob)[:300]} (rewrites: {log})")
                ctx.nt_extra += 1
    finally:
        modes.close()


def replay(case):
    from pestverif.modes import Modes

    m = Modes()
    try:
        return eval_case(m, case)
    finally:
        m.close()


def shrink(case):
    from pestverif.modes import Modes
    from pestverif.shrink import ddmin_str

    m = Modes()
    try:
        first = eval_case(m, case)
        if not first:
            return case
        cls = first.split(":")[0]

        def fails(s):
            r = eval_case(m, {**case, "input": s})
            return bool(r) and r.split(":")[0] == cls

        return {**case, "input": ddmin_str(case["input"], fails, 80)}
    finally:
        m.close()
