"""C01 - the generated parser module is observationally identical to the interpreter."""

from __future__ import annotations

from pestverif import fullcase, gprint, refdiff
from pestverif.runner import Ctx

ID = "C01"
RULE = (
    "Hypothesis-driven constructive grammar generator, profile full (every expression kind in every context, "
    "all rule modifiers, none/one/both trivia rules, tags, the seven stack operations, ASCII and Unicode "
    "built-ins, guarded recursion); per grammar: optimizer off and on (separate workers), every grammar rule "
    "and EOI as start rule, 8 inputs (empty, derivations, prefixes, mutations, random), start_pos 0 and a "
    "random k <= len. Oracle (same Parser object): generate() twice is byte-identical, the source compiles "
    "and exposes parse(); interpreter Pairs <=> generated Pairs with identical (rule, start, end, tag, "
    "nesting); interpreter PestParsingError <=> generated PestParsingError with equal furthest_pos. "
    "Non-trivial: the interpreter consumed >= 1 character or failed beyond start_pos; distinct by hash of "
    "(grammar, optimizer, rule, input, k)."
)
ASSUMPTIONS = [
    "built-in rule names other than EOI are not start rules of generated modules (documented KeyError)",
    "interpreter outcomes other than Pairs / PestParsingError are C07's business and only counted here",
    "expected/unexpected labels are not compared (the generated negative-predicate label is spelled "
    "differently)",
]
SIZES = {"quick": 400, "thorough": 4000}


def compare(i_out, g_out):
    """Violation class or None."""
    if i_out[0] not in ("ok", "fail"):
        return "skip"
    if g_out[0] in ("budget", "recursion"):
        return "skip"
    if g_out[0] == "exc":
        return f"gen-exc:{g_out[1]}@{g_out[2]}"
    if i_out[0] == "ok":
        if g_out[0] != "ok":
            return "ok-vs-" + g_out[0]
        return None if i_out[1] == g_out[1] else "tree"
    if g_out[0] != "fail":
        return "fail-vs-" + g_out[0]
    return None if i_out[1] == g_out[1] else "furthest_pos"


def eval_case(modes, case):
    side = case["mode"]
    worker = modes.raw if side == "raw" else modes.opt
    rules = refdiff.case_rules(case)
    text = gprint.grammar_text(rules)
    res = worker.call(
        "pestverif.modes:eval_grammar",
        {"text": text, "calls": [(case["rule"], case["input"], case.get("start_pos", 0))], "gen": True, "gen_twice": True},
    )
    if res["load"][0] != "ok":
        return None
    if res["gen_load"][0] != "ok":
        return f"[{side}] genload: generated module does not compile/import: {res['gen_load']}"
    if res.get("gen_same") is not True:
        return f"[{side}] gen-twice: generate() twice differs: {res.get('gen_same')}"
    cls = compare(res["int"][0], res["gen"][0])
    if cls in (None, "skip"):
        return None
    return f"[{side}] {cls}: interpreter {str(res['int'][0])[:300]} vs generated {str(res['gen'][0])[:300]}"


def shards(tier: str):
    return [{"idx": i} for i in range(16)]


def run_shard(ctx: Ctx, spec):
    import hypothesis
    from hypothesis import HealthCheck, Phase, settings
    from hypothesis import strategies as st

    from pestverif.modes import Modes

    modes = Modes()
    try:

        @hypothesis.seed(ctx.sub_seed("random"))
        @settings(max_examples=SIZES[ctx.tier], deadline=None, database=None, phases=[Phase.generate],
                  suppress_health_check=list(HealthCheck))
        @hypothesis.given(st.randoms(use_true_random=False))
        def t(rng):
            case = fullcase.draw(rng, "full")
            calls = []
            starts = case["names"] + ["EOI"]
            for inp, _label in case["inputs"]:
                ks = {0}
                if inp:
                    ks.add(rng.randint(0, len(inp)))
                for s in starts:
                    for k in sorted(ks):
                        calls.append((s, inp, k))
            ctx.count("grammars")
            for side, worker in (("raw", modes.raw), ("opt", modes.opt)):
                res = worker.call(
                    "pestverif.modes:eval_grammar",
                    {"text": case["text"], "calls": calls, "gen": True, "gen_twice": True},
                )
                if res["load"][0] != "ok":
                    ctx.count("frontend_rejected:" + side)
                    continue
                c0 = calls[0]
                if res["gen_load"][0] != "ok":
                    ctx.violation(f"{side}:genload:{res['gen_load'][1] if len(res['gen_load']) > 1 else ''}",
                                  fullcase.make_case(case, c0[0], c0[1], c0[2], side),
                                  f"generated module does not compile/import: {res['gen_load']}")
                    continue
                if res.get("gen_same") is not True:
                    ctx.violation(f"{side}:gen-twice", fullcase.make_case(case, c0[0], c0[1], c0[2], side),
                                  f"generate() twice differs: {res.get('gen_same')}")
                for call, i_out, g_out in zip(calls, res["int"], res["gen"]):
                    ctx.evals += 1
                    cls = compare(i_out, g_out)
                    if cls == "skip":
                        ctx.count("skipped:" + (i_out[0] if i_out[0] not in ("ok", "fail") else "gen-" + g_out[0]))
                        continue
                    ctx.count("interp_" + i_out[0])
                    if fullcase.consumed_or_late_failure(i_out, call[2]):
                        ctx.nontrivial([case["text"], side, call])
                    if call[2] > 0:
                        ctx.count("calls_with_start_pos>0")
                    if cls is not None:
                        ctx.violation(f"{side}:{cls}", fullcase.make_case(case, call[0], call[1], call[2], side),
                                      f"interpreter {str(i_out)[:300]} vs generated {str(g_out)[:300]}")
            if len(ctx.samples) < 3:
                ctx.sample({"grammar": case["text"], "inputs": [i for i, _ in case["inputs"]][:6], "start_rules": starts})

        t()
    finally:
        modes.close()


replay = refdiff.replay_with(eval_case)
shrink = refdiff.shrink_with(eval_case, shrink_start_pos=True)
