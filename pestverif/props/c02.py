"""C02 - optimizer passes never change what a grammar parses (differential over pass configurations)."""

from __future__ import annotations

import os

from pestverif import fullcase, gprint, refdiff
from pestverif.runner import Ctx

ID = "C02"
RULE = (
    "Hypothesis-driven constructive grammar generator, profiles optimizer-bait (skip-until shapes in atomic "
    "and non-atomic rules with and without trivia, choices of literals that are prefixes of one another, "
    "case-insensitive literals, adjacent/overlapping/reversed ranges, regex-special characters, Unicode "
    "property rules, group repetitions) and full. Configurations per grammar, each in its own process: "
    "optimizer=None (baseline), the default pipeline, each of the five exported passes alone, and three "
    "Hypothesis-drawn pass lists (subset / permutation / repetition, length <= 8). Oracle: same outcome class "
    "and same tree as the baseline for the optimized interpreter and for code generated from the optimized "
    "rules; a configuration whose Parser cannot be built is a violation. Plus an exhaustive skip-until matrix: "
    "every ordered list of 1-3 stop strings over {a, b, aa, ab, ba, bb} x three rule shapes x every input over "
    "{a, b, x} of length <= 4 (quick) / 5 (thorough) x {skip alone, default pipeline} x {interpreter, generated}; and the deterministic trivia-configuration and modifier-chain matrices of pestverif/tmatrix.py (194 + 450 grammars quick, 194 + 2325 thorough) under the default pipeline and single passes; and an exhaustive choice matrix (every ordered pair and triple from 14 literal / range (incl. a nested pair) / built-in (ASCII_DIGIT, NEWLINE) / case-insensitive alternatives x 49 inputs) under the default pipeline, inline-built-in alone and squash alone. Non-trivial: the configuration "
    "rewrote at least one rule (tree_view differs from the baseline) and the parse consumed input or failed "
    "beyond offset 0; distinct by hash of (grammar, configuration, mode, rule, input)."
)
ASSUMPTIONS = [
    "failure positions and labels are not compared (passes legitimately change which terminals record "
    "failures)",
    "baseline outcomes other than Pairs / PestParsingError are C07's business and skipped",
]
SIZES = {"quick": 50, "thorough": 1500}
PASS_NAMES = ["unroll", "skip", "inline built-in", "squash_choice", "inline silent"]


def cfg_name(cfg):
    if cfg in ("raw", "opt"):
        return "default" if cfg == "opt" else "none"
    return "+".join(PASS_NAMES[i].replace(" ", "_") for i in cfg) or "empty-list"


def compare(base, got):
    if base[0] not in ("ok", "fail"):
        return "skip"
    if got[0] in ("budget", "recursion"):
        return "skip"
    if got[0] == "exc":
        return f"exc:{got[1]}@{got[2]}"
    if base[0] != got[0]:
        return f"{got[0]}-vs-baseline-{base[0]}"
    if base[0] == "ok" and base[1] != got[1]:
        return "tree"
    return None


_singles: dict = {}


def run_config(modes, cfg, req):
    """Outcomes under one optimizer configuration; None when the worker did not answer in time (wall-clock
    guard: inconclusive, never a violation)."""
    from pestverif.modes import WorkerDied

    try:
        return _run_config(modes, cfg, req)
    except WorkerDied:
        return None


def _run_config(modes, cfg, req):
    from pestverif.modes import Worker, one_shot

    if isinstance(cfg, tuple) and len(cfg) == 1:
        # a worker dedicated to one single-pass configuration may serve many grammars (G5: re-applying the
        # same configuration is idempotent)
        w = _singles.get(cfg)
        if w is None:
            w = _singles[cfg] = Worker(list(cfg))
        return w.call("pestverif.modes:eval_grammar", req)
    if cfg == "raw":
        return modes.raw.call("pestverif.modes:eval_grammar", req)
    if cfg == "opt":
        return modes.opt.call("pestverif.modes:eval_grammar", req)
    return one_shot(list(cfg), "pestverif.modes:eval_grammar", req)


def eval_case(modes, case):
    rules = refdiff.case_rules(case)
    text = gprint.grammar_text(rules)
    call = (case["rule"], case["input"], case.get("start_pos", 0))
    cfg = case["config"] if isinstance(case["config"], str) else tuple(case["config"])
    base = modes.raw.call("pestverif.modes:eval_grammar", {"text": text, "calls": [call], "gen": False})
    if base["load"][0] != "ok":
        return None
    res = run_config(modes, cfg, {"text": text, "calls": [call], "gen": True})
    if res is None:
        return None
    if res["load"][0] != "ok":
        return f"[{cfg_name(cfg)}] load: Parser construction failed with this optimizer configuration: {res['load']}"
    which = case["mode"]
    if which == "gen" and res["gen_load"][0] != "ok":
        return f"[{cfg_name(cfg)}:gen] genload: {res['gen_load']}"
    outs = res["gen"] if which == "gen" else res["int"]
    cls = compare(base["int"][0], outs[0])
    if cls in (None, "skip"):
        return None
    return f"[{cfg_name(cfg)}:{which}] {cls}: baseline {str(base['int'][0])[:300]} vs optimized {str(outs[0])[:300]}"


def run_skip_matrix(ctx: Ctx, modes, idx):
    """Exhaustive skip-until matrix: every ordered list of 1-3 stop strings over {a, b, aa, ab, ba, bb} in
    r = @{ (!(s1 | s2 | ..) ~ ANY)* ~ ANY? ~ ANY? } (and the + form, and a non-atomic rule of a grammar
    without trivia), x every input over {a, b, x} of length <= 5, configurations skip alone and default."""
    import itertools

    stops_pool = ["a", "b", "aa", "ab", "ba", "bb"]
    lists = []
    for n in (1, 2, 3):
        lists.extend(itertools.permutations(stops_pool, n))
    maxlen = 4 if ctx.tier == "quick" else 5
    inputs = ["".join(p) for n in range(maxlen + 1) for p in itertools.product("abx", repeat=n)]
    calls = [("r", i, 0) for i in inputs]
    k = 0
    for stops in lists:
        for form, mod in (("star", "@"), ("plus", ""), ("star", "")):
            k += 1
            if k % 16 != idx:
                continue
            inner = ("str", stops[0]) if len(stops) == 1 else ("grp", ("alt", tuple(("str", x) for x in stops)))
            body = ("grp", ("seq", (("not", inner), ("id", "ANY"))))
            rep = (form, body)
            rules = [("r", mod, ("seq", (rep, ("opt", ("id", "ANY")), ("opt", ("id", "ANY")))) if form == "star"
                      else ("alt", (("seq", (rep, ("opt", ("id", "ANY")))), ("id", "ANY"))))]
            text = gprint.grammar_text(rules)
            base = run_config(modes, "raw", {"text": text, "calls": calls, "gen": False})
            if base is None:
                ctx.count("wall_clock_timeout_inconclusive")
                continue
            if base["load"][0] != "ok":
                ctx.count("frontend_rejected")
                continue
            ctx.count("skip_matrix_grammars")
            for cfg in ("opt", (1,)):
                res = run_config(modes, cfg, {"text": text, "calls": calls, "gen": True})
                if res is None:
                    ctx.count("wall_clock_timeout_inconclusive")
                    continue
                if res["load"][0] != "ok":
                    continue
                for which, outs in (("int", res["int"]), ("gen", res["gen"])):
                    for call, b, g in zip(calls, base["int"], outs):
                        ctx.evals += 1
                        cls = compare(b, g)
                        if cls in (None, "skip"):
                            continue
                        case = {"rules": [["r", mod, __import__("pestverif.gast", fromlist=["to_json"]).to_json(rules[0][2])]],
                                "grammar_text": text, "rule": "r", "input": call[1], "start_pos": 0, "mode": which,
                                "config": cfg if isinstance(cfg, str) else list(cfg)}
                        ctx.violation(f"skip-matrix:{cfg_name(cfg)}:{which}:{cls}", case,
                                      f"baseline {str(b)[:200]} vs [{cfg_name(cfg)}] {str(g)[:200]}")
            ctx.nt_extra += 1
    ctx.exhaustive.update({"complete": True, "skip_matrix_stop_lists": len(lists), "skip_matrix_inputs": len(inputs)})


def run_squash_matrix(ctx: Ctx, modes, idx):
    """Exhaustive choice matrix for the squash / inline-built-in passes: every ordered pair and triple of
    alternatives from a pool of literals (incl. prefixes of one another and the empty string), ranges, two built-in
    rules and case-insensitive literals x every input over {a, b, 0, 5, x, A} of length <= 2."""
    import itertools

    from pestverif import gast

    pool = [("str", "a"), ("str", "ab"), ("str", "b"), ("str", "0"), ("str", "00"), ("str", "5x"), ("range", "0", "9"),
            ("range", "a", "z"), ("range", "b", "d"), ("id", "ASCII_DIGIT"), ("ci", "a"), ("ci", "ab"), ("str", ""), ("id", "NEWLINE")]
    alts = list(itertools.permutations(pool, 2)) + list(itertools.permutations(pool, 3))
    inputs = ["".join(p) for n in range(3) for p in itertools.product("ab05xA", repeat=n)] + ["\n", "\r\n", "\r", "\nx", "\r\nx", "a\n"]
    calls = [("r", i, 0) for i in inputs]
    for k, alt in enumerate(alts):
        if k % 16 != idx:
            continue
        rules = [("r", "", ("seq", (("alt", tuple(alt)), ("opt", ("str", "x")))))]
        text = gprint.grammar_text(rules)
        base = run_config(modes, "raw", {"text": text, "calls": calls, "gen": False})
        if base is None:
            ctx.count("wall_clock_timeout_inconclusive")
            continue
        if base["load"][0] != "ok":
            ctx.count("frontend_rejected")
            continue
        ctx.count("squash_matrix_grammars")
        for cfg in ("opt", (2,), (3,)):
            res = run_config(modes, cfg, {"text": text, "calls": calls, "gen": True})
            if res is None:
                ctx.count("wall_clock_timeout_inconclusive")
                continue
            name = cfg_name(cfg)

            def mk(call, which, cfg=cfg):
                return {"rules": gast.to_json([list(r) for r in rules]), "grammar_text": text, "rule": "r",
                        "input": call[1], "start_pos": 0, "mode": which,
                        "config": cfg if isinstance(cfg, str) else list(cfg)}

            if res["load"][0] != "ok":
                ctx.violation(f"squash-matrix:{name}:load", mk(calls[0], "int"), f"Parser construction failed: {res['load']}")
                continue
            if res["gen_load"][0] != "ok":
                ctx.violation(f"squash-matrix:{name}:genload", mk(calls[0], "gen"), f"generated module unloadable: {res['gen_load']}")
            for which, outs in (("int", res["int"]), ("gen", res["gen"])):
                for call, b, g in zip(calls, base["int"], outs):
                    ctx.evals += 1
                    cls = compare(b, g)
                    if cls in (None, "skip"):
                        continue
                    ctx.violation(f"squash-matrix:{name}:{which}:{cls}", mk(call, which),
                                  f"baseline {str(b)[:200]} vs [{name}] {str(g)[:200]}")
        ctx.nt_extra += 1
    ctx.exhaustive.update({"squash_matrix_choices": len(alts), "squash_matrix_inputs": len(inputs)})


def run_trivia_matrix(ctx: Ctx, modes, idx):
    """Deterministic trivia-configuration and modifier-chain matrices (pestverif/tmatrix.py): the default
    pipeline and each single pass against optimizer=None."""
    from pestverif import gast, tmatrix

    cases = tmatrix.trivia_cases(ctx.tier) + tmatrix.chain_cases(ctx.tier)
    for k, (label, rules, calls) in enumerate(cases):
        if k % 16 != idx:
            continue
        text = gprint.grammar_text(rules)
        if ctx.tier == "quick":
            # C04 runs the full matrix in both optimized modes against the reference; here (quick) a thinner copy
            calls = [c for c in calls if c[0] not in ("r5", "r6", "r8", "r11")][::2]
        base = run_config(modes, "raw", {"text": text, "calls": calls, "gen": False})
        if base is None:
            ctx.count("wall_clock_timeout_inconclusive")
            continue
        if base["load"][0] != "ok":
            ctx.count("frontend_rejected")
            continue
        ctx.count("trivia_matrix_grammars")
        # the trivia fusion happens in every Optimizer; quick: default pipeline and skip alone
        for cfg in ["opt"] + [(i,) for i in ((1,) if ctx.tier == "quick" else range(5))]:
            res = run_config(modes, cfg, {"text": text, "calls": calls, "gen": True})
            if res is None:
                ctx.count("wall_clock_timeout_inconclusive")
                continue
            name = cfg_name(cfg)

            def mk(call, which, cfg=cfg):
                return {"rules": gast.to_json([list(r) for r in rules]), "grammar_text": text, "rule": call[0],
                        "input": call[1], "start_pos": 0, "mode": which,
                        "config": cfg if isinstance(cfg, str) else list(cfg)}

            if res["load"][0] != "ok":
                ctx.violation(f"matrix:{name}:load", mk(calls[0], "int"), f"Parser construction failed: {res['load']}")
                continue
            if res["gen_load"][0] != "ok":
                ctx.violation(f"matrix:{name}:genload", mk(calls[0], "gen"), f"generated module unloadable: {res['gen_load']}")
            for which, outs in (("int", res["int"]), ("gen", res["gen"])):
                for call, b, g in zip(calls, base["int"], outs):
                    ctx.evals += 1
                    cls = compare(b, g)
                    if cls in (None, "skip"):
                        continue
                    ctx.violation(f"matrix:{name}:{which}:{cls}", mk(call, which),
                                  f"baseline {str(b)[:300]} vs [{name}] {str(g)[:300]}")
        ctx.nt_extra += 1
    ctx.exhaustive.update({"trivia_matrix_grammars": len(cases), "trivia_matrix_calls": sum(len(c[2]) for c in cases)})


def shards(tier: str):
    return [{"idx": i} for i in range(16)]


def run_shard(ctx: Ctx, spec):
    import hypothesis
    from hypothesis import HealthCheck, Phase, settings
    from hypothesis import strategies as st

    from pestverif.modes import Modes

    modes = Modes()
    try:

        @hypothesis.seed(ctx.sub_seed("random"))
        @settings(max_examples=int(os.environ.get("PESTVERIF_C02_N", SIZES[ctx.tier])), deadline=None, database=None, phases=[Phase.generate],
                  suppress_health_check=list(HealthCheck))
        @hypothesis.given(st.randoms(use_true_random=False))
        def t(rng):
            profile = "bait" if rng.random() < 0.65 else "full"
            case = fullcase.draw(rng, profile, n_inputs=8)
            calls = [(s, inp, 0) for inp, _ in case["inputs"] for s in case["main"][:3]]
            configs = ["opt"] + [(i,) for i in range(5)]
            for _ in range(3):
                n = rng.randint(2, 8) if rng.random() < 0.5 else rng.randint(2, 5)
                if rng.random() < 0.5:
                    perm = list(range(5))
                    rng.shuffle(perm)
                    configs.append(tuple(perm[: max(2, min(n, 5))]))
                else:
                    configs.append(tuple(rng.randrange(5) for _ in range(n)))
            ctx.count("grammars:" + profile)
            base = run_config(modes, "raw", {"text": case["text"], "calls": calls, "gen": False, "tree_view": True})
            if base is None:
                ctx.count("wall_clock_timeout_inconclusive")
                return
            if base["load"][0] != "ok":
                ctx.count("frontend_rejected")
                return
            for cfg in configs:
                res = run_config(modes, cfg, {"text": case["text"], "calls": calls, "gen": True, "tree_view": True})
                if res is None:
                    ctx.count("wall_clock_timeout_inconclusive")
                    continue
                name = cfg_name(cfg)
                c0 = calls[0]
                mk = lambda call, mode, cfg=cfg: fullcase.make_case(  # noqa: E731
                    case, call[0], call[1], call[2], mode, config=cfg if isinstance(cfg, str) else list(cfg))
                if res["load"][0] != "ok":
                    ctx.violation(f"{name if len(name) < 30 else 'list'}:load:{res['load'][1] if len(res['load']) > 1 else ''}",
                                  mk(c0, "int"), f"Parser construction failed: {res['load']}")
                    continue
                changed = res.get("tree_view") != base.get("tree_view")
                ctx.count("config_rewrote_a_rule" if changed else "config_changed_nothing")
                bucket_cfg = name if cfg == "opt" or len(cfg) == 1 else "list"
                if res["gen_load"][0] != "ok":
                    ctx.violation(f"{bucket_cfg}:genload", mk(c0, "gen"), f"generated module unloadable: {res['gen_load']}")
                for which, outs in (("int", res["int"]), ("gen", res["gen"])):
                    for call, b, g in zip(calls, base["int"], outs):
                        ctx.evals += 1
                        cls = compare(b, g)
                        if cls == "skip":
                            ctx.count("skipped")
                            continue
                        if changed and fullcase.consumed_or_late_failure(b, 0):
                            ctx.nontrivial([case["text"], name, which, call])
                        if cls is not None:
                            ctx.violation(f"{bucket_cfg}:{which}:{cls}", mk(call, which),
                                          f"baseline {str(b)[:300]} vs [{name}] {str(g)[:300]}")
            if len(ctx.samples) < 3:
                ctx.sample({"grammar": case["text"], "configs": [cfg_name(c) for c in configs],
                            "inputs": [i for i, _ in case["inputs"]][:5]})

        t()
        run_skip_matrix(ctx, modes, spec["idx"])
        run_trivia_matrix(ctx, modes, spec["idx"])
        run_squash_matrix(ctx, modes, spec["idx"])
    finally:
        modes.close()
        for w in _singles.values():
            w.close()
        _singles.clear()


def _closing(fn):
    def wrapped(case):
        try:
            return fn(case)
        finally:
            for w in _singles.values():
                w.close()
            _singles.clear()

    return wrapped


replay = _closing(refdiff.replay_with(eval_case))
shrink = _closing(refdiff.shrink_with(eval_case))
