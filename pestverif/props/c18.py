"""C18 - PrattParser honours declared precedence and associativity (validity-predicate oracle)."""

from __future__ import annotations

from functools import lru_cache

from pestverif.runner import Ctx

ID = "C18"
RULE = (
    "Hypothesis draws an operator table (1-4 infix levels with one associativity each and 1-2 operators per "
    "level, 0-2 prefix and 0-2 postfix operators, all levels distinct so that no tie between fixities or "
    "associativities exists) and a well-formed stream (prefix* primary postfix*)(infix prefix* primary "
    "postfix*)* of at most 12 real Pair objects; the tree built by a PrattParser subclass with tuple-building "
    "hooks must consume the whole stream, have the stream as its in-order yield and satisfy the deep-"
    "precedence predicate; every case is run twice: in a direct subclass, and in a subclass of an already used "
    "parser class that declared the flipped table (reversed precedence order, opposite associativity). "
    "A case is non-trivial when more than one tree has that yield (counted by DP), i.e. "
    "precedence/associativity decides the shape; distinct by (table, stream)."
)
ASSUMPTIONS = [
    "ties between operators of different fixity, or two associativities on one level, are unspecified and "
    "never generated",
    "oracle self-test: for every generated stream of <= 7 tokens all trees are enumerated and exactly one "
    "must satisfy the predicate, otherwise the check exits 2",
]

SIZES = {"quick": 1500, "thorough": 25000}
EXH_LEN = {"quick": 7, "thorough": 9}


# ----------------------------------------------------------------------------- oracle


def trees(toks):
    toks = tuple(toks)
    memo = {}

    def go(i, j):
        key = (i, j)
        if key in memo:
            return memo[key]
        out = []
        if j - i == 1 and toks[i][0] == "p":
            out.append(("P", toks[i][1]))
        if j - i >= 2:
            if toks[i][0] == "pre":
                out.extend(("PRE", toks[i][1], t) for t in go(i + 1, j))
            if toks[j - 1][0] == "post":
                out.extend(("POST", t, toks[j - 1][1]) for t in go(i, j - 1))
            for k in range(i + 1, j - 1):
                if toks[k][0] == "in":
                    for left in go(i, k):
                        for right in go(k + 1, j):
                            out.append(("IN", left, toks[k][1], right))
        memo[key] = out
        return out

    return go(0, len(toks))


def count_trees(toks) -> int:
    toks = tuple(toks)

    @lru_cache(maxsize=None)
    def go(i, j):
        n = 0
        if j - i == 1 and toks[i][0] == "p":
            n += 1
        if j - i >= 2:
            if toks[i][0] == "pre":
                n += go(i + 1, j)
            if toks[j - 1][0] == "post":
                n += go(i, j - 1)
            for k in range(i + 1, j - 1):
                if toks[k][0] == "in":
                    n += go(i, k) * go(k + 1, j)
        return n

    return go(0, len(toks))


def valid(t, pre, post, inf) -> bool:
    def right_spine_ops(t):
        while True:
            if t[0] == "IN":
                yield ("in", t[2])
                t = t[3]
            elif t[0] == "PRE":
                yield ("pre", t[1])
                t = t[2]
            else:
                return

    def left_spine_ops(t):
        while True:
            if t[0] == "IN":
                yield ("in", t[2])
                t = t[1]
            elif t[0] == "POST":
                yield ("post", t[2])
                t = t[1]
            else:
                return

    def prec(kind, op):
        return inf[op][0] if kind == "in" else pre[op] if kind == "pre" else post[op]

    def ok(t):
        if t[0] == "P":
            return True
        if t[0] == "IN":
            q, rassoc = inf[t[2]]
            for kind, op in right_spine_ops(t[1]):
                p = prec(kind, op)
                if p < q or (p == q and not (kind == "in" and not rassoc)):
                    return False
            for kind, op in left_spine_ops(t[3]):
                p = prec(kind, op)
                if p < q or (p == q and not (kind == "in" and rassoc)):
                    return False
            return ok(t[1]) and ok(t[3])
        if t[0] == "PRE":
            p0 = pre[t[1]]
            return all(prec(k, o) >= p0 for k, o in left_spine_ops(t[2])) and ok(t[2])
        if t[0] == "POST":
            p0 = post[t[2]]
            return all(prec(k, o) >= p0 for k, o in right_spine_ops(t[1])) and ok(t[1])
        raise ValueError(t)

    return ok(t)


def yield_of(t):
    if t[0] == "P":
        return [("p", t[1])]
    if t[0] == "PRE":
        return [("pre", t[1])] + yield_of(t[2])
    if t[0] == "POST":
        return yield_of(t[1]) + [("post", t[2])]
    if t[0] == "IN":
        return yield_of(t[1]) + [("in", t[2])] + yield_of(t[3])
    raise ValueError(t)


# ----------------------------------------------------------------------------- system under test


def flipped(table):
    """The same operators with the precedence order reversed and every associativity flipped."""
    top = 1 + max([v for v in table["pre"].values()] + [v for v in table["post"].values()] + [v[0] for v in table["in"].values()] + [0])
    return {
        "pre": {k: top - v for k, v in table["pre"].items()},
        "post": {k: top - v for k, v in table["post"].items()},
        "in": {k: [top - v[0], not v[1]] for k, v in table["in"].items()},
    }


def run_pratt(table, toks, base=None):
    """Returns ("ok", tree, consumed_all) or ("exc", description).

    With `base` (another table) the parser class under test is a subclass of a PrattParser subclass that
    declares `base` and has already parsed the same stream once: the tables a class declares are what counts,
    not what a parent class declared or computed earlier (seeded change S67).
    """
    from pest import Pair, PrattParser, RuleFrame
    from pest.pairs import Stream

    pre, post, inf = table["pre"], table["post"], table["in"]
    Parent = PrattParser
    if base is not None:

        class B(PrattParser):
            PREFIX_OPS = dict(base["pre"])
            POSTFIX_OPS = dict(base["post"])
            INFIX_OPS = {k: (v[0], bool(v[1])) for k, v in base["in"].items()}

            def parse_primary(self, pair):
                return ("P", str(pair))

            def parse_prefix(self, op, rhs):
                return ("PRE", op.name, rhs)

            def parse_postfix(self, lhs, op):
                return ("POST", lhs, op.name)

            def parse_infix(self, lhs, op, rhs):
                return ("IN", lhs, op.name, rhs)

        Parent = B

    class P(Parent):
        PREFIX_OPS = dict(pre)
        POSTFIX_OPS = dict(post)
        INFIX_OPS = {k: (v[0], bool(v[1])) for k, v in inf.items()}

        def parse_primary(self, pair):
            return ("P", str(pair))

        def parse_prefix(self, op, rhs):
            return ("PRE", op.name, rhs)

        def parse_postfix(self, lhs, op):
            return ("POST", lhs, op.name)

        def parse_infix(self, lhs, op, rhs):
            return ("IN", lhs, op.name, rhs)

    text = ""
    pairs = []
    for kind, name in toks:
        start = len(text)
        text += name + " "
        pairs.append((start, start + len(name), "prim" if kind == "p" else name))
    if base is not None:
        try:
            Parent().parse_expr(Stream([Pair(text, s, e, RuleFrame(n, 0)) for s, e, n in pairs]))
        except Exception:  # noqa: BLE001  (the warm-up run is judged by its own evaluate() call elsewhere)
            pass
    stream = Stream([Pair(text, s, e, RuleFrame(n, 0)) for s, e, n in pairs])
    try:
        tree = P().parse_expr(stream)
    except Exception as err:  # noqa: BLE001
        return ("exc", f"{type(err).__name__}: {err}")
    return ("ok", tree, stream.peek() is None)


def evaluate(table, toks, base=None):
    """Violation description or None."""
    toks = [tuple(t) for t in toks]
    res = run_pratt(table, toks, base)
    if res[0] == "exc":
        return "parse_expr raised " + res[1]
    _, tree, whole = res
    if not whole:
        return f"parse_expr stopped before the end of a well-formed stream; tree so far {tree}"
    try:
        y = yield_of(tree)
    except Exception:  # noqa: BLE001
        return f"malformed tree {tree!r}"
    if y != toks:
        return f"in-order yield of the tree is not the token stream: {tree}"
    inf = {k: (v[0], bool(v[1])) for k, v in table["in"].items()}
    if not valid(tree, table["pre"], table["post"], inf):
        return f"tree violates declared precedence/associativity: {tree}"
    return None


# ----------------------------------------------------------------------------- generation


def case_strategy():
    from hypothesis import strategies as st

    @st.composite
    def cases(draw):
        n_in = draw(st.integers(1, 4))
        n_pre = draw(st.integers(0, 2))
        n_post = draw(st.integers(0, 2))
        levels = draw(st.permutations(list(range(1, 10))))
        levels = list(levels)
        inf = {}
        for i in range(n_in):
            lvl = levels.pop()
            ra = draw(st.booleans())
            for j in range(draw(st.integers(1, 2))):
                inf[f"i{i}{j}"] = [lvl, ra]
        pre = {f"pre{i}": levels.pop() for i in range(n_pre)}
        post = {f"post{i}": levels.pop() for i in range(n_post)}
        n_ops = draw(st.integers(0, 4))
        toks = []
        for k in range(n_ops + 1):
            if pre:
                for _ in range(draw(st.integers(0, 2))):
                    toks.append(("pre", draw(st.sampled_from(sorted(pre)))))
            toks.append(("p", f"x{k}"))
            if post:
                for _ in range(draw(st.integers(0, 2))):
                    toks.append(("post", draw(st.sampled_from(sorted(post)))))
            if k < n_ops:
                toks.append(("in", draw(st.sampled_from(sorted(inf)))))
        toks = toks[:12]
        # keep the stream well formed after truncation
        while toks and toks[-1][0] in ("in", "pre"):
            toks.pop()
        if not toks:
            toks = [("p", "x0")]
        return {"pre": pre, "post": post, "in": inf}, toks

    return cases()


def shards(tier: str):
    return [{"idx": i, "n": SIZES[tier]} for i in range(16)]


def run_shard(ctx: Ctx, spec):
    import hypothesis
    from hypothesis import HealthCheck, Phase, settings

    selftest_fail = []

    @hypothesis.seed(ctx.sub_seed("pratt"))
    @settings(
        max_examples=spec["n"],
        deadline=None,
        database=None,
        phases=[Phase.generate],
        suppress_health_check=list(HealthCheck),
    )
    @hypothesis.given(case_strategy())
    def t(case):
        table, toks = case
        ctx.evals += 1
        ntrees = count_trees(toks)
        if ntrees >= 2:
            ctx.nontrivial([table, toks])
            ctx.count("streams_with_several_trees")
        ctx.count(f"stream_len_{min(len(toks), 12):02d}")
        if table["post"] and table["pre"]:
            ctx.count("tables_with_prefix_and_postfix")
        inf = {k: (v[0], bool(v[1])) for k, v in table["in"].items()}
        if len(toks) <= 7:
            good = [t_ for t_ in trees(toks) if valid(t_, table["pre"], table["post"], inf)]
            ctx.count("oracle_selftest_streams")
            if len(good) != 1:
                selftest_fail.append((table, toks, len(good)))
        bad = evaluate(table, toks)
        if not bad:
            ctx.evals += 1
            ctx.count("subclass_of_a_used_parser_with_the_flipped_table")
            bad = evaluate(table, toks, base=flipped(table))
            if bad:
                bad = "in a subclass of a used parser class: " + bad
        if bad:
            kind = bad.split(":")[0][:40]
            # bucket by the fixities involved
            kinds = "+".join(sorted({k for k, _ in toks if k != "p"}))
            ctx.violation(f"{kind}|{kinds}", {"table": table, "tokens": [list(x) for x in toks]}, bad)
        elif ntrees >= 2 and len(ctx.samples) < 3:
            ctx.sample({"table": table, "tokens": [f"{k}:{n}" for k, n in toks], "tree": str(run_pratt(table, toks)[1])})

    t()

    # exhaustive part: 24 tables (every precedence order of a left-assoc infix, a right-assoc infix, a
    # prefix and a postfix operator) x every well-formed stream up to the bound
    import itertools

    tables = []
    for perm in itertools.permutations([1, 2, 3, 4]):
        tables.append({"pre": {"pre0": perm[2]}, "post": {"post0": perm[3]}, "in": {"iL": [perm[0], False], "iR": [perm[1], True]}})
    alphabet = [("p", "x"), ("pre", "pre0"), ("post", "post0"), ("in", "iL"), ("in", "iR")]
    k = 0

    def streams(prefix, state, maxlen):
        # state: "need" (operand expected) or "have" (operand complete)
        if state == "have":
            yield prefix
        if len(prefix) >= maxlen:
            return
        for tok in alphabet:
            kind = tok[0]
            if state == "need" and kind in ("pre", "p"):
                yield from streams(prefix + [tok], "have" if kind == "p" else "need", maxlen)
            elif state == "have" and kind in ("post", "in"):
                yield from streams(prefix + [tok], "have" if kind == "post" else "need", maxlen)

    for toks in streams([], "need", EXH_LEN[ctx.tier]):
        k += 1
        if k % 16 != spec["idx"]:
            continue
        nt = count_trees(toks) >= 2
        for table in tables:
            ctx.evals += 1
            if nt:
                ctx.nt_extra += 1
            bad = evaluate(table, toks)
            if not bad and nt:
                ctx.evals += 1
                bad = evaluate(table, toks, base=flipped(table))
                if bad:
                    bad = "in a subclass of a used parser class: " + bad
            if bad:
                kinds = "+".join(sorted({kk for kk, _ in toks if kk != "p"}))
                ctx.violation(f"exh:{bad.split(':')[0][:40]}|{kinds}", {"table": table, "tokens": [list(x) for x in toks]}, bad)
    ctx.exhaustive.update({"complete": True, "tables": 24, "max_stream_len": EXH_LEN[ctx.tier]})
    if selftest_fail:
        raise RuntimeError(f"oracle self-test failed (not exactly one valid tree): {selftest_fail[:2]}")


def both(table, toks):
    """Plain run, then the run in a subclass of a used parser class that declared the flipped table."""
    bad = evaluate(table, toks)
    if not bad:
        bad = evaluate(table, toks, base=flipped(table))
        if bad:
            bad = "in a subclass of a used parser class: " + bad
    return bad


def replay(case):
    return both(case["table"], case["tokens"])


def shrink(case):
    table, toks = case["table"], [tuple(t) for t in case["tokens"]]

    def wellformed(ts):
        # (pre* p post*)(in pre* p post*)*
        state = "start"
        for k, _ in ts:
            if state in ("start", "after_in"):
                if k == "pre":
                    state = "after_in"
                elif k == "p":
                    state = "operand"
                else:
                    return False
            elif state == "operand":
                if k == "post":
                    pass
                elif k == "in":
                    state = "after_in"
                else:
                    return False
        return state == "operand"

    changed = True
    while changed:
        changed = False
        for i in range(len(toks)):
            for width in (2, 1):
                cand = toks[:i] + toks[i + width :]
                if cand and wellformed(cand) and both(table, cand):
                    toks = cand
                    changed = True
                    break
            if changed:
                break
    used = {n for _, n in toks}
    table = {
        "pre": {k: v for k, v in table["pre"].items() if k in used},
        "post": {k: v for k, v in table["post"].items() if k in used},
        "in": {k: v for k, v in table["in"].items() if k in used} or table["in"],
    }
    out = {"table": table, "tokens": [list(t) for t in toks]}
    return out if both(table, toks) else case
