"""C17 - bundled JSON and calculator languages agree with independent references."""

from __future__ import annotations

import json
import os
import shutil
import sys
import tempfile

from pestverif.runner import Ctx, repo_root

ID = "C17"
RULE = (
    "JSON: Hypothesis recursive strategy builds a spelling tree (top level array/object; numbers spelled from "
    "the RFC 8259 grammar incl. -0, fractions, e/E exponents with signs and leading zeros, large integers; "
    "strings from raw non-control characters incl. non-ASCII and astral ones, all eight two-character "
    "escapes, \\uXXXX incl. surrogate pairs), serialised by the harness' own serialiser which draws "
    "whitespace (space, tab, CR, LF) wherever RFC 8259 allows it (none trailing) and records the raw slice "
    "of every string token. Oracle: json.loads; both bundled grammars, rule json, four modes: accepted; a "
    "tree walker per grammar compares nesting, member order, number tokens as floats and string tokens as "
    "raw slices; proper prefixes (quick: 14 per document - both ends, the middle, random; thorough: 60, i.e. all of them for documents up to 60 characters) must raise PestParsingError. Calculator: random expression ASTs over "
    "small integers, variables, + - * / ^, unary minus, factorial and parentheses, printed with the "
    "documented precedence table (+ - < * / < ^ right-assoc < prefix < postfix) with only the necessary "
    "parentheses plus random redundant ones and whitespace; the three implementations are imported from a "
    "scratch copy of examples/calculator whose generated parsers are regenerated from the current tree "
    "(with and without optimizer; plus, deterministically, every ordered triple of infix operators in a flat "
    "chain of four operands with one unary minus or factorial at each position, printed without parentheses) "
    "and must all evaluate to the reference value under 3 variable "
    "environments. Non-trivial: JSON document of depth >= 2 with a number and an escape; expression with "
    ">= 2 operators; distinct by hash of the document / expression text."
)
ASSUMPTIONS = [
    "calculator cases whose reference evaluation raises, leaves the integers or exceeds 1e9 in any "
    "intermediate are discarded before python-pest is called",
    "RFC 8259 documents only (no raw control characters in strings); the grammars may accept more",
]
SIZES = {"quick": {"json": 40, "calc": 250, "prefixes": 14}, "thorough": {"json": 500, "calc": 6000, "prefixes": 60}}
JSON_GRAMMARS = ["examples/json/json.pest", "tests/grammars/json.pest"]
WS = [" ", "\t", "\r", "\n"]


# ----------------------------------------------------------------------------- JSON generation


def json_strategy():
    from hypothesis import strategies as st

    digits = st.text(alphabet="0123456789", min_size=1, max_size=4)
    intpart = st.one_of(st.just("0"), st.builds(lambda a, b: a + b, st.sampled_from("123456789"), st.text(alphabet="0123456789", max_size=17)))
    frac = st.one_of(st.just(""), digits.map(lambda d: "." + d))
    exp = st.one_of(st.just(""), st.builds(lambda e, s, d: e + s + d, st.sampled_from("eE"), st.sampled_from(["", "+", "-"]),
                                           st.text(alphabet="0123456789", min_size=1, max_size=3)))
    number = st.builds(lambda sign, i, f, e: ("num", sign + i + f + e), st.sampled_from(["", "-"]), intpart, frac, exp)

    raw_char = st.characters(min_codepoint=0x20, blacklist_categories=("Cs",), blacklist_characters='"\\')
    two = st.sampled_from(['\\"', "\\\\", "\\/", "\\b", "\\f", "\\n", "\\r", "\\t"])
    uni = st.one_of(
        st.integers(0, 0xFFFF).filter(lambda c: not 0xD800 <= c < 0xE000).map(lambda c: "\\u%04x" % c),
        st.integers(0, 0xFFFF).filter(lambda c: not 0xD800 <= c < 0xE000).map(lambda c: "\\u%04X" % c),
        st.integers(0x10000, 0x10FFFF).map(lambda c: "\\u%04x\\u%04x" % (0xD800 + ((c - 0x10000) >> 10), 0xDC00 + ((c - 0x10000) & 0x3FF))),
    )
    piece = st.one_of(raw_char, raw_char, raw_char, two, uni, st.sampled_from(["a", " ", "é", "\U0001F600", "/"]))
    string = st.lists(piece, max_size=8).map(lambda ps: ("str", '"' + "".join(ps) + '"'))
    lit = st.sampled_from([("lit", "true"), ("lit", "false"), ("lit", "null")])
    leaf = st.one_of(number, number, string, string, lit)

    def extend(children):
        arr = st.lists(children, max_size=4).map(lambda xs: ("arr", xs))
        obj = st.lists(st.tuples(string, children), max_size=4).map(lambda kv: ("obj", kv))
        return st.one_of(arr, obj)

    value = st.recursive(leaf, extend, max_leaves=8)
    top = st.one_of(st.lists(value, max_size=5).map(lambda xs: ("arr", xs)),
                    st.lists(st.tuples(string, value), max_size=5).map(lambda kv: ("obj", kv)))
    return st.tuples(top, st.randoms(use_true_random=False))


def serialise(node, rng, strings):
    """Spelling tree -> text; `strings` collects the raw slice of every string token in order."""

    def ws():
        if rng.random() < 0.6:
            return ""
        return "".join(rng.choice(WS) for _ in range(rng.randint(1, 2)))

    k = node[0]
    if k in ("num", "lit"):
        return node[1]
    if k == "str":
        strings.append(node[1])
        return node[1]
    if k == "arr":
        parts = []
        for x in node[1]:
            parts.append(ws() + serialise(x, rng, strings) + ws())
        return "[" + (",".join(parts) if parts else ws()) + "]"
    if k == "obj":
        parts = []
        for key, val in node[1]:
            ktxt = serialise(key, rng, strings)
            parts.append(ws() + ktxt + ws() + ":" + ws() + serialise(val, rng, strings) + ws())
        return "{" + (",".join(parts) if parts else ws()) + "}"
    raise ValueError(k)


def depth_of(node):
    if node[0] == "arr":
        return 1 + max([depth_of(x) for x in node[1]] + [0])
    if node[0] == "obj":
        return 1 + max([depth_of(v) for _, v in node[1]] + [0])
    return 0


# ----------------------------------------------------------------------------- JSON tree walkers


def walk_examples(tree):
    """examples/json/json.pest: json silent -> [object|array, EOI]."""
    if len(tree) != 2 or tree[1][0] != "EOI":
        raise Mismatch(f"top level pairs are {[p[0] for p in tree]}, expected [object|array, EOI]")
    return _val_examples(tree[0])


def _val_examples(p):
    n, s, e, _t, kids = p
    if n == "object":
        out = []
        for kid in kids:
            if kid[0] != "pair" or len(kid[4]) != 2 or kid[4][0][0] != "string":
                raise Mismatch(f"object member is {kid[0]} with children {[c[0] for c in kid[4]]}")
            out.append((("str", kid[4][0][1], kid[4][0][2]), _val_examples(kid[4][1])))
        return ("obj", out)
    if n == "array":
        return ("arr", [_val_examples(k) for k in kids])
    if n == "string":
        return ("str", s, e)
    if n == "number":
        return ("num", s, e)
    if n == "boolean":
        return ("bool", s, e)
    if n == "null":
        return ("null", s, e)
    raise Mismatch(f"unexpected pair {n}")


def walk_tests(tree):
    """tests/grammars/json.pest: json > [value, EOI]."""
    if len(tree) != 1 or tree[0][0] != "json":
        raise Mismatch(f"top level pairs are {[p[0] for p in tree]}, expected [json]")
    kids = tree[0][4]
    if len(kids) != 2 or kids[0][0] != "value" or kids[1][0] != "EOI":
        raise Mismatch(f"json children are {[p[0] for p in kids]}, expected [value, EOI]")
    return _val_tests(kids[0])


def _val_tests(p):
    n, s, e, _t, kids = p
    if n == "value":
        if len(kids) != 1:
            raise Mismatch(f"value has {len(kids)} children")
        return _val_tests(kids[0])
    if n == "object":
        out = []
        for kid in kids:
            if kid[0] != "pair" or len(kid[4]) != 2 or kid[4][0][0] != "string":
                raise Mismatch(f"object member is {kid[0]} with children {[c[0] for c in kid[4]]}")
            out.append((("str", kid[4][0][1], kid[4][0][2]), _val_tests(kid[4][1])))
        return ("obj", out)
    if n == "array":
        return ("arr", [_val_tests(k) for k in kids])
    if n in ("string", "number", "null"):
        return ({"string": "str", "number": "num", "null": "null"}[n], s, e)
    if n == "bool":
        return ("bool", s, e)
    raise Mismatch(f"unexpected pair {n}")


class Mismatch(Exception):
    pass


def mirror(walked, loaded, doc, strings_out):
    """Raise Mismatch unless the walked tree mirrors the json.loads value."""
    k = walked[0]
    if k == "obj":
        if not (isinstance(loaded, tuple) and loaded[0] == "obj"):
            raise Mismatch("tree has an object where json.loads has " + type(loaded).__name__)
        if len(walked[1]) != len(loaded[1]):
            raise Mismatch(f"object has {len(walked[1])} members in the tree, {len(loaded[1])} in json.loads")
        for (wk, wv), (lk, lv) in zip(walked[1], loaded[1]):
            raw = doc[wk[1] : wk[2]]
            strings_out.append(raw)
            if json.loads(raw) != lk:
                raise Mismatch(f"member key token {raw!r} is not json.loads key {lk!r} (order/keys differ)")
            mirror(wv, lv, doc, strings_out)
        return
    if k == "arr":
        if not isinstance(loaded, list):
            raise Mismatch("tree has an array where json.loads has " + type(loaded).__name__)
        if len(walked[1]) != len(loaded):
            raise Mismatch(f"array has {len(walked[1])} items in the tree, {len(loaded)} in json.loads")
        for w, item in zip(walked[1], loaded):
            mirror(w, item, doc, strings_out)
        return
    raw = doc[walked[1] : walked[2]]
    if k == "str":
        strings_out.append(raw)
        if not isinstance(loaded, str) or json.loads(raw) != loaded:
            raise Mismatch(f"string token {raw!r} does not decode to json.loads value {loaded!r}")
    elif k == "num":
        if isinstance(loaded, bool) or not isinstance(loaded, (int, float)) or float(raw) != float(loaded):
            raise Mismatch(f"number token {raw!r} is not json.loads value {loaded!r}")
    elif k == "bool":
        if loaded is not (raw == "true") or raw not in ("true", "false"):
            raise Mismatch(f"boolean token {raw!r} vs json.loads {loaded!r}")
    elif k == "null":
        if loaded is not None or raw != "null":
            raise Mismatch(f"null token {raw!r} vs json.loads {loaded!r}")


def prefix_lengths(doc, rng, limit):
    n = len(doc)
    if n <= limit:
        return list(range(n))
    picks = {0, 1, n - 1, n - 2, n // 2}
    while len(picks) < limit:
        picks.add(rng.randrange(n))
    return sorted(picks)


def json_case_violations(modes, doc, strings, prefixes=None):
    """[(bucket, mode, grammar, detail)] for one document (all modes, both grammars, proper prefixes)."""
    loaded = json.loads(doc, object_pairs_hook=lambda kv: ("obj", kv))
    out = []
    plist = list(range(len(doc))) if prefixes is None else prefixes
    calls = [("json", doc, 0)] + [("json", doc[:i], 0) for i in plist]
    for gpath in JSON_GRAMMARS:
        text = open(os.path.join(repo_root(), gpath), encoding="utf-8").read()
        walker = walk_examples if gpath.startswith("examples") else walk_tests
        for side, w in (("raw", modes.raw), ("opt", modes.opt)):
            res = w.call("pestverif.modes:eval_grammar", {"text": text, "calls": calls, "gen": True})
            if res["load"][0] != "ok":
                out.append(("grammar-load", side, gpath, f"bundled grammar does not load: {res['load']}"))
                continue
            for mode, outs in ((side + "-int", res["int"]), (side + "-gen", res["gen"])):
                if not outs:
                    out.append(("genload", mode, gpath, f"generated module: {res['gen_load']}"))
                    continue
                full = outs[0]
                if full[0] != "ok":
                    out.append(("rejects-valid-json", mode, gpath, f"RFC 8259 document rejected: {full[:4]}"))
                else:
                    try:
                        seen = []
                        mirror(walker(full[1]), loaded, doc, seen)
                        if seen != strings:
                            raise Mismatch(f"string tokens {seen[:4]}... differ from the serialised raw slices {strings[:4]}...")
                    except Mismatch as err:
                        out.append(("tree-mirror", mode, gpath, str(err)))
                for i, o in zip(plist, outs[1:]):
                    if o[0] != "fail":
                        out.append(("prefix-accepted", mode, gpath, f"proper prefix {doc[:i]!r} -> {o[0]}"))
                        break
    return out


# ----------------------------------------------------------------------------- calculator


class Discard(Exception):
    pass


LIMIT = 10**9


def ref_eval(ast, env):
    k = ast[0]
    if k == "int":
        return ast[1]
    if k == "var":
        return env[ast[1]]
    if k == "neg":
        return -ref_eval(ast[1], env)
    if k == "fac":
        v = ref_eval(ast[1], env)
        if v < 0 or v > 12:
            raise Discard()
        r = 1
        for i in range(2, v + 1):
            r *= i
        return r
    a, b = ref_eval(ast[2], env), ref_eval(ast[3], env)
    op = ast[1]
    if op == "+":
        r = a + b
    elif op == "-":
        r = a - b
    elif op == "*":
        r = a * b
    elif op == "/":
        if b == 0:
            raise Discard()
        r = a // b
    else:
        if b < 0 or b > 30:
            raise Discard()
        r = a**b
    if abs(r) > LIMIT:
        raise Discard()
    return r


LEVEL = {"+": 1, "-": 1, "*": 2, "/": 2, "^": 3}


def level(ast):
    k = ast[0]
    if k == "bin":
        return LEVEL[ast[1]]
    if k == "neg":
        return 4
    if k == "fac":
        return 5
    return 6


def show(ast, rng, need=0):
    """Print with the documented table; parenthesise only where needed (plus a few redundant pairs)."""

    def sp():
        return rng.choice(["", "", " ", " ", "  ", "\t", "\n"])

    k = ast[0]
    if k == "int":
        s = str(ast[1])
    elif k == "var":
        s = ast[1]
    elif k == "neg":
        s = "-" + sp() + show(ast[1], rng, 4)
    elif k == "fac":
        s = show(ast[1], rng, 5) + sp() + "!"
    else:
        lv = LEVEL[ast[1]]
        if ast[1] == "^":
            s = show(ast[2], rng, lv + 1) + sp() + "^" + sp() + show(ast[3], rng, lv)
        else:
            s = show(ast[2], rng, lv) + sp() + ast[1] + sp() + show(ast[3], rng, lv + 1)
    if level(ast) < need or rng.random() < 0.06:
        s = "(" + sp() + s + sp() + ")"
    return s


def expr_strategy():
    from hypothesis import strategies as st

    leaf = st.one_of(st.integers(0, 12).map(lambda n: ("int", n)), st.sampled_from([("int", 20), ("int", 100), ("int", 7)]),
                     st.sampled_from(["x", "y", "zz"]).map(lambda v: ("var", v)))

    def extend(ch):
        return st.one_of(
            st.tuples(st.just("bin"), st.sampled_from("+-*/^"), ch, ch),
            st.tuples(st.just("bin"), st.sampled_from("+-*/"), ch, ch),
            st.tuples(st.just("neg"), ch),
            st.tuples(st.just("fac"), ch),
        )

    return st.tuples(st.recursive(leaf, extend, max_leaves=7), st.randoms(use_true_random=False))


def flat_chains():
    """Deterministic operator-interaction matrix: every ordered triple of infix operators in a flat chain of four
    small operands, with one unary minus or one factorial at each operand position (or none). Returns ASTs built
    by a tiny grammar-encoded reference parser for the documented table (sources are printed without any
    parentheses, so the implementations have to get every pairwise interaction right)."""
    import itertools

    leaves = [7, 2, 3, 2]
    out = []
    for ops in itertools.product("+-*/^", repeat=3):
        for pos in range(-1, 4):
            for un in (("neg", "fac") if pos >= 0 else ("",)):
                toks = []
                for i, v in enumerate(leaves):
                    if un == "neg" and i == pos:
                        toks.append("-")
                    toks.append(v)
                    if un == "fac" and i == pos:
                        toks.append("!")
                    if i < 3:
                        toks.append(ops[i])
                out.append((" ".join(str(t) for t in toks), _ref_parse(toks)))
    return out


def _ref_parse(toks):
    """tokens -> AST by the documented table: + - < * / < ^ (right) < prefix - < postfix !"""
    pos = [0]

    def peek():
        return toks[pos[0]] if pos[0] < len(toks) else None

    def take():
        pos[0] += 1
        return toks[pos[0] - 1]

    def postfix():
        node = ("int", take())
        while peek() == "!":
            take()
            node = ("fac", node)
        return node

    def prefix():
        if peek() == "-":
            take()
            return ("neg", prefix())
        return postfix()

    def power():
        left = prefix()
        if peek() == "^":
            take()
            return ("bin", "^", left, power())
        return left

    def term():
        left = power()
        while peek() in ("*", "/"):
            op = take()
            left = ("bin", op, left, power())
        return left

    def expr():
        left = term()
        while peek() in ("+", "-"):
            op = take()
            left = ("bin", op, left, term())
        return left

    return expr()


def n_ops(ast):
    if ast[0] in ("int", "var"):
        return 0
    return 1 + sum(n_ops(c) for c in ast[1:] if isinstance(c, tuple))


ENVS = [{"x": 3, "y": 2, "zz": 5}, {"x": -2, "y": 7, "zz": 1}, {"x": 0, "y": -3, "zz": 4}]


def calc_setup(req):
    """Worker: build the scratch copy of examples/calculator for this worker's optimizer configuration."""
    import pest

    from pestverif import modes

    src = repo_root() + "/examples/calculator"
    pkg = os.path.join(req["dir"], req["pkg"])
    os.makedirs(pkg, exist_ok=True)
    for f in ("__init__.py", "_ast.py", "prec_climber.py", "pratt.py", "grammar_encoded_prec.py"):
        shutil.copy(os.path.join(src, f), os.path.join(pkg, f))
    for gfile, out in (("calculator.pest", "parser.py"), ("grammar_encoded_prec.pest", "grammar_encoded_prec_parser.py")):
        with open(os.path.join(src, gfile), encoding="utf-8") as fd:
            parser = pest.Parser.from_grammar(fd.read(), optimizer=modes.make_optimizer())
        with open(os.path.join(pkg, out), "w", encoding="utf-8") as fd:
            fd.write(parser.generate())
    if req["dir"] not in sys.path:
        sys.path.insert(0, req["dir"])
    return True


def calc_eval(req):
    """Worker: evaluate expressions with the three implementations. Returns per source a dict impl -> result."""
    import importlib

    import pest

    pkg = req["pkg"]
    pc = importlib.import_module(pkg + ".prec_climber")
    pr = importlib.import_module(pkg + ".pratt")
    ge = importlib.import_module(pkg + ".grammar_encoded_prec")
    out = []
    for source in req["sources"]:
        row = {}
        for name, fn in (
            ("precedence-climbing", lambda s: pc.parse_program(pc.parse(pc.Rule.PROGRAM, s))),
            ("pratt", lambda s: pr.CalculatorParser().parse(s)),
            ("grammar-encoded", lambda s: ge.parse_program(ge.parse(ge.Rule.PROGRAM, s))),
        ):
            try:
                expr = fn(source)
                row[name] = ("value", [expr.evaluate(dict(env)) for env in req["envs"]])
            except pest.PestParsingError as err:
                row[name] = ("parse-error", str(err).split("\n")[0][:80])
            except Exception as err:  # noqa: BLE001
                row[name] = ("error", f"{type(err).__name__}: {err}"[:120])
        out.append(row)
    return out


def calc_violations(row, want, source):
    out = []
    for impl, res in row.items():
        if res[0] != "value":
            out.append((f"{impl}:{res[0]}", f"{impl} on {source!r}: {res[1]}; reference value {want}"))
        elif list(res[1]) != list(want):
            out.append((f"{impl}:value", f"{impl} evaluates {source!r} to {res[1]}, the documented precedence table gives {want}"))
    return out


# ----------------------------------------------------------------------------- plumbing


def shards(tier: str):
    return [{"idx": i} for i in range(16)]


def run_shard(ctx: Ctx, spec):
    import hypothesis
    from hypothesis import HealthCheck, Phase, settings

    from pestverif.modes import Modes

    size = SIZES[ctx.tier]
    modes = Modes()
    tmp = tempfile.mkdtemp(prefix="pestverif_calc_")
    try:
        sett = dict(deadline=None, database=None, phases=[Phase.generate], suppress_health_check=list(HealthCheck))

        @hypothesis.seed(ctx.sub_seed("json"))
        @settings(max_examples=size["json"], **sett)
        @hypothesis.given(json_strategy())
        def tj(case):
            tree, rng = case
            strings: list[str] = []
            doc = serialise(tree, rng, strings)
            if rng.random() < 0.3:
                doc = rng.choice(WS) + doc  # leading whitespace is allowed, trailing is not generated
            ctx.count("json_documents")
            has_escape = any("\\" in s for s in strings)
            has_number = any(c.isdigit() for c in doc)
            nt = depth_of(tree) >= 2 and has_escape and has_number
            plist = prefix_lengths(doc, rng, size["prefixes"])
            ctx.count("json_prefixes", len(plist))
            for bucket, mode, gpath, detail in json_case_violations(modes, doc, strings, plist):
                ctx.violation(f"json:{bucket}:{mode}:{gpath.split('/')[0]}", {"kind": "json", "doc": doc, "strings": strings},
                              f"[{mode}] {gpath}: {detail}")
            ctx.evals += 8 * (len(plist) + 1)
            if nt:
                ctx.nontrivial(["json", doc])
            if len(ctx.samples) < 2 and nt:
                ctx.sample({"kind": "json", "doc": doc})

        tj()

        for pkg, w in (("calc_raw", modes.raw), ("calc_opt", modes.opt)):
            w.call("pestverif.props.c17:calc_setup", {"dir": tmp, "pkg": pkg})

        @hypothesis.seed(ctx.sub_seed("calc"))
        @settings(max_examples=size["calc"], **sett)
        @hypothesis.given(expr_strategy())
        def tc(case):
            ast, rng = case
            try:
                want = [ref_eval(ast, env) for env in ENVS]
            except Discard:
                ctx.count("calc_discarded")
                return
            source = show(ast, rng)
            ctx.count("calc_expressions")
            for pkg, w in (("calc_raw", modes.raw), ("calc_opt", modes.opt)):
                row = w.call("pestverif.props.c17:calc_eval", {"pkg": pkg, "sources": [source], "envs": ENVS})[0]
                ctx.evals += 3
                for bucket, detail in calc_violations(row, want, source):
                    ctx.violation(f"calc:{bucket}", {"kind": "calc", "source": source, "want": want, "pkg": pkg},
                                  f"[{pkg}] {detail}")
            if n_ops(ast) >= 2:
                ctx.nontrivial(["calc", source])
                if len(ctx.samples) < 4:
                    ctx.sample({"kind": "calc", "source": source, "values": want})

        tc()

        # deterministic operator-interaction matrix
        chains = flat_chains()
        for j, (source, ast) in enumerate(chains):
            if j % 16 != spec["idx"]:
                continue
            try:
                want = [ref_eval(ast, env) for env in ENVS]
            except Discard:
                ctx.count("chain_discarded")
                continue
            ctx.count("chain_expressions")
            for pkg, w in (("calc_raw", modes.raw), ("calc_opt", modes.opt)):
                row = w.call("pestverif.props.c17:calc_eval", {"pkg": pkg, "sources": [source], "envs": ENVS})[0]
                ctx.evals += 3
                for bucket, detail in calc_violations(row, want, source):
                    ctx.violation(f"chain:{bucket}", {"kind": "calc", "source": source, "want": want, "pkg": pkg},
                                  f"[{pkg}] {detail}")
            ctx.nontrivial(["chain", source])
        ctx.exhaustive.update({"flat_chain_expressions": len(chains)})
    finally:
        modes.close()
        shutil.rmtree(tmp, ignore_errors=True)


def replay(case):
    from pestverif.modes import Modes

    m = Modes()
    tmp = tempfile.mkdtemp(prefix="pestverif_calc_")
    try:
        if case["kind"] == "json":
            v = json_case_violations(m, case["doc"], case["strings"])
            return f"[{v[0][1]}] {v[0][2]}: {v[0][0]}: {v[0][3]}" if v else None
        pkg = case["pkg"]
        w = m.raw if pkg == "calc_raw" else m.opt
        w.call("pestverif.props.c17:calc_setup", {"dir": tmp, "pkg": pkg})
        row = w.call("pestverif.props.c17:calc_eval", {"pkg": pkg, "sources": [case["source"]], "envs": ENVS})[0]
        v = calc_violations(row, case["want"], case["source"])
        return f"[{pkg}] {v[0][0]}: {v[0][1]}" if v else None
    finally:
        m.close()
        shutil.rmtree(tmp, ignore_errors=True)
