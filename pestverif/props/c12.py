"""C12 - character terminals and escapes denote exactly the specified code points."""

from __future__ import annotations

from pestverif import gprint, refpeg
from pestverif.runner import Ctx

ID = "C12"
RULE = (
    "membership sweeps parse('r', chr(cp)) for one-rule grammars r = { X } in raw-int, raw-gen, opt-int, "
    "opt-gen. X = each of the 10 ASCII_* rules, NEWLINE, ANY: ALL 1,114,112 code points (exhaustive, both "
    "tiers) against explicit sets. X = Hypothesis-generated ranges, one-character literals, ASCII "
    "case-insensitive one-character literals and mixed choices of them (what squash_choice merges; "
    "boundaries at case edges, adjacent / overlapping / nested / single-point / astral ranges, members ] - ^ \\ [; "
    "plus a deterministic matrix of 19 regex-special characters x 9 roles inside a merged class, cased non-ASCII "
    "one-character ^\"c\" literals alone and inside merged classes (no folding outside ASCII), and every "
    "explicit built-in merged with literals, a range, ASCII_DIGIT and NEWLINE): "
    "boundary-focused sweeps (U+0000-U+02FF, +-2 around every boundary, case images, specials, stride) in "
    "quick, full sweeps in thorough, against the union of the explicit sets. Unicode property built-ins "
    "(alone and mixed into choices): cross-mode equality with the unoptimized interpreter. Case-insensitive "
    "literals of length 1-2 over ASCII letters x all ASCII inputs of that length. Escapes \\n \\r \\t \\\\ \\\" "
    "\\' \\0, \\xHH for all 256 values, \\u{H..} with 2-6 digits, both hex cases, in string, case-insensitive string, "
    "PUSH_LITERAL and both range positions, followed by further characters, and after an escaped backslash (where they are no escapes), for sampled (quick) / all (thorough) scalar values. A sweep (X, mode) is non-trivial "
    "when its oracle set is neither empty nor everything; distinct by (X, mode, chunk)."
)
ASSUMPTIONS = [
    "case-insensitive literals fold ASCII letters only (pest's eq_ignore_ascii_case): a one-character ASCII "
    "case-insensitive literal accepts exactly its two ASCII case variants among all 1,114,112 code points",
    "a grammar text that the front end rejects is counted (frontend_rejected) and left to C10",
]
SPECIALS = [0x7F, 0x80, 0xFF, 0x100, 0x130, 0x131, 0x17F, 0x1E9E, 0x212A, 0x212B, 0xD7FF, 0xD800, 0xDBFF,
            0xDC00, 0xDFFF, 0xE000, 0xFFFD, 0xFFFF, 0x10000, 0x1F600, 0x10FFFE, 0x10FFFF]
MAXCP = 0x110000
SIZES = {"quick": {"family": 110, "props": 40, "escapes": 3000}, "thorough": {"family": 400, "props": 10_000, "escapes": 0}}


# ----------------------------------------------------------------------------- worker side


def sweep(req):
    """Worker: accepted code points (as intervals) of rule r for the given code point intervals."""
    import pest

    from pestverif import modes

    parser, load = modes.get_parser(req["grammar"])
    if parser is None:
        return {"load": load}
    out = {"load": load}
    for which in req["which"]:
        if which == "gen":
            module, gload, _ = modes.get_module(req["grammar"])
            if module is None:
                out["gen"] = {"error": gload}
                continue
            target = module
        else:
            target = parser
        acc, exc = [], []
        run_start = None
        prev = None
        err_t = pest.PestParsingError
        parse = target.parse
        for lo, hi in req["intervals"]:
            for cp in range(lo, hi):
                try:
                    pairs = parse("r", chr(cp))
                    ok = len(pairs) == 1 and pairs[0].end == 1
                    if not ok and len(exc) < 3:
                        exc.append((cp, f"matched but consumed {pairs[0].end if len(pairs) else '?'} characters"))
                except err_t:
                    ok = False
                except Exception as e:  # noqa: BLE001
                    ok = False
                    if len(exc) < 3:
                        exc.append((cp, f"{type(e).__name__}: {e}"))
                if ok:
                    if run_start is None:
                        run_start = cp
                    elif prev != cp - 1:
                        acc.append((run_start, prev + 1))
                        run_start = cp
                    prev = cp
            if run_start is not None:
                acc.append((run_start, prev + 1))
                run_start = None
        out[which] = {"acc": acc, "exc": exc}
    return out


def strings(req):
    """Worker: which of the given strings rule r accepts completely (for ci literals and escapes)."""
    import pest

    from pestverif import modes

    parser, load = modes.get_parser(req["grammar"])
    if parser is None:
        return {"load": load}
    out = {"load": load}
    for which in req["which"]:
        target = parser
        if which == "gen":
            module, gload, _ = modes.get_module(req["grammar"])
            if module is None:
                out["gen"] = {"error": gload}
                continue
            target = module
        res = []
        for rule, s in req["calls"]:
            try:
                pairs = target.parse(rule, s)
                res.append(len(pairs) == 1 and pairs[0].end == len(s))
            except pest.PestParsingError:
                res.append(False)
            except Exception as e:  # noqa: BLE001
                res.append(f"{type(e).__name__}: {e}")
        out[which] = res
    return out


# ----------------------------------------------------------------------------- oracle


def member_pred(x):
    """Explicit membership predicate for a member expression, and whether it is ASCII-only-specified."""
    k = x[0]
    if k == "str":
        c = x[1]
        return (lambda ch: ch == c), False
    if k == "ci":
        c = x[1]
        # pest folds ASCII letters only: the ASCII case variants of c and nothing else, for every code point
        if not c.isascii():
            return (lambda ch: ch == c), False  # no folding outside ASCII (pest: eq_ignore_ascii_case)
        return (lambda ch: ch in (c.lower(), c.upper())), False
    if k == "range":
        lo, hi = x[1], x[2]
        return (lambda ch: lo <= ch <= hi), False
    if k == "id":
        n = x[1]
        if n in refpeg.ASCII:
            return refpeg.ASCII[n], False
        if n == "ANY":
            return (lambda ch: True), False
        if n == "NEWLINE":
            return (lambda ch: ch in "\n\r"), False
        return None, False  # unicode property: no explicit oracle
    raise ValueError(x)


def oracle_for(x):
    """(pred, ascii_only, has_unicode_prop) for X = member or alt of members."""
    members = x[1] if x[0] == "alt" else (x,)
    preds, ascii_only, prop = [], False, False
    for m in members:
        p, a = member_pred(m)
        if p is None:
            prop = True
        else:
            preds.append(p)
        ascii_only = ascii_only or a
    return (lambda ch: any(p(ch) for p in preds)), ascii_only, prop


def to_set_intervals(acc):
    return [tuple(iv) for iv in acc]


def in_intervals(cp, ivs):
    for lo, hi in ivs:
        if lo <= cp < hi:
            return True
    return False


def boundary_cps(x):
    cps = set(range(0x300)) | set(SPECIALS) | set(range(0, MAXCP, 257))
    members = x[1] if x[0] == "alt" else (x,)
    for m in members:
        chars = []
        if m[0] in ("str", "ci"):
            chars = [m[1]]
        elif m[0] == "range":
            chars = [m[1], m[2]]
        for c in chars:
            o = ord(c)
            for d in range(-2, 3):
                if 0 <= o + d < MAXCP:
                    cps.add(o + d)
            for img in (c.upper(), c.lower(), c.swapcase(), c.casefold()):
                for ch in img:
                    cps.add(ord(ch))
                    if ord(ch) + 1 < MAXCP:
                        cps.add(ord(ch) + 1)
                    if ord(ch) > 0:
                        cps.add(ord(ch) - 1)
    # also every code point whose case image falls on a boundary (e.g. U+212A for 'k')
    return cps


def intervals_of(cps):
    out = []
    start = prev = None
    for cp in sorted(cps):
        if start is None:
            start = prev = cp
        elif cp == prev + 1:
            prev = cp
        else:
            out.append((start, prev + 1))
            start = prev = cp
    if start is not None:
        out.append((start, prev + 1))
    return out


def check_sweep(ctx, modes, x, intervals, label, exhaustive_flag=False):
    """Sweep X over `intervals` in the four modes and compare with the oracle."""
    grammar = "r = { " + gprint.pr(x) + " }\n"
    pred, ascii_only, has_prop = oracle_for(x)
    results = {}
    for side, worker in (("raw", modes.raw), ("opt", modes.opt)):
        res = worker.call("pestverif.props.c12:sweep", {"grammar": grammar, "which": ["int", "gen"], "intervals": intervals})
        if res["load"][0] != "ok":
            ctx.count("frontend_rejected:" + side)
            continue
        for which in ("int", "gen"):
            r = res.get(which)
            if r is None or "error" in r:
                ctx.violation(f"{side}-{which}:genload", {"x": tojson(x), "mode": f"{side}-{which}", "cp": 0},
                              f"generated module unloadable: {r}")
                continue
            results[f"{side}-{which}"] = r
    base = results.get("raw-int")
    n_cps = sum(hi - lo for lo, hi in intervals)
    for mode, r in results.items():
        ctx.evals += n_cps
        acc = r["acc"]
        if r["exc"]:
            cp, msg = r["exc"][0]
            ctx.violation(f"{mode}:exception", {"x": tojson(x), "mode": mode, "cp": cp}, f"U+{cp:04X}: {msg}")
        nontriv_in = nontriv_out = False
        bad = None
        # fast path: build a set of accepted cps when there are many intervals
        accset = None
        if len(acc) >= 8:
            accset = set()
            for lo, hi in acc:
                accset.update(range(lo, hi))
        for lo, hi in intervals:
            for cp in range(lo, hi):
                got = (cp in accset) if accset is not None else in_intervals(cp, acc)
                ch = chr(cp)
                if has_prop or (ascii_only and cp >= 0x80):
                    # no explicit oracle: cross-mode equality with the unoptimized interpreter
                    if ascii_only and cp >= 0x80 and not has_prop:
                        want = None
                    else:
                        want = in_intervals(cp, base["acc"]) if base is not None and mode != "raw-int" else None
                else:
                    want = pred(ch)
                if want is None:
                    continue
                if want:
                    nontriv_in = True
                else:
                    nontriv_out = True
                if got != want and bad is None:
                    bad = (cp, got, want)
        if (nontriv_in and nontriv_out) or (has_prop and acc and mode != "raw-int"):
            ctx.nontrivial([label, tojson(x), mode, intervals[0]])
        if bad:
            cp, got, want = bad
            kind = "extra" if got else "missing"
            ctx.violation(f"{mode}:{kind}:{label}", {"x": tojson(x), "mode": mode, "cp": cp},
                          f"U+{cp:04X} {ch_repr(cp)}: accepted={got}, specified={want} for X = {gprint.pr(x)}")
    return results


def ch_repr(cp):
    return repr(chr(cp))


def tojson(x):
    from pestverif.gast import to_json

    return to_json(x)


# ----------------------------------------------------------------------------- generation


def family_strategy():
    from hypothesis import strategies as st

    edge_chars = "AZaz09@[`{/:k KsS]-^\\[é\x7f\x80ÿĀſK￿\U00010000\U0010ffff"
    chars = st.one_of(st.sampled_from(edge_chars), st.characters(min_codepoint=0x20, max_codepoint=0x2FF),
                      st.characters(blacklist_categories=("Cs",)))

    def rng_(a, b):
        lo, hi = (a, b) if a <= b else (b, a)
        return ("range", lo, hi)

    ranges = st.one_of(
        st.builds(rng_, chars, chars),
        st.sampled_from([("range", "Z", "a"), ("range", "A", "z"), ("range", "a", "a"), ("range", "0", "9"),
                         ("range", "[", "]"), ("range", "\\", "^"), ("range", "+", "-"), ("range", "\U00010000", "\U0001FFFF")]),
        st.builds(lambda c, n: rng_(c, chr(min(ord(c) + n, MAXCP - 1))), chars, st.integers(0, 40)),
    )
    def related(base, kind, d1, d2):
        """A second range related to `base`: nested, overlapping, adjacent, same start / end, containing."""
        lo, hi = ord(base[1]), ord(base[2])
        clamp = lambda x: max(0, min(MAXCP - 1, x))  # noqa: E731
        if kind == "nested":
            a, b = lo + d1, hi - d2
        elif kind == "overlap-right":
            a, b = lo + d1, hi + d2
        elif kind == "overlap-left":
            a, b = lo - d1, hi - d2
        elif kind == "adjacent":
            a, b = hi + 1, hi + 1 + d1
        elif kind == "same-start":
            a, b = lo, hi - d2
        elif kind == "same-end":
            a, b = lo + d1, hi
        else:  # containing
            a, b = lo - d1, hi + d2
        a, b = clamp(a), clamp(b)
        if a > b:
            a, b = b, a
        if 0xD800 <= a < 0xE000 or 0xD800 <= b < 0xE000:
            a, b = 0x61, 0x63
        return ("range", chr(a), chr(b))

    wide = st.builds(lambda c, n: rng_(c, chr(min(ord(c) + n, MAXCP - 1))), st.sampled_from("!0Aaz\u00e0"), st.integers(3, 90))
    related_pairs = st.builds(
        lambda base, kind, d1, d2, swap, extra: ("alt", tuple(([related(base, kind, d1, d2), base] if swap else [base, related(base, kind, d1, d2)]) + extra)),
        wide,
        st.sampled_from(["nested", "nested", "overlap-right", "overlap-left", "adjacent", "same-start", "same-end", "containing"]),
        st.integers(1, 5), st.integers(1, 5), st.booleans(),
        st.lists(st.sampled_from([("str", "]"), ("str", "-"), ("str", "^"), ("str", "\\"), ("ci", "k"), ("range", "0", "9"), ("str", "m")]), max_size=2),
    )
    lits = chars.map(lambda c: ("str", c))
    cis = st.sampled_from("abkszAKSZ").map(lambda c: ("ci", c))
    props = st.sampled_from(["LETTER", "UPPERCASE_LETTER", "NUMBER", "ASCII_DIGIT", "ASCII_ALPHA", "ASCII_HEX_DIGIT", "NEWLINE"]).map(lambda n: ("id", n))
    member = st.one_of(ranges, ranges, lits, lits, cis, props)
    return st.one_of(member, st.lists(member, min_size=2, max_size=5).map(lambda ms: ("alt", tuple(ms))),
                     related_pairs, related_pairs)


def unicode_rule_names():
    import pest
    from pest.grammar.rules.unicode import UnicodePropertyRule

    return sorted(n for n, r in pest.Parser.BUILTIN.items() if isinstance(r, UnicodePropertyRule))


def escape_cases(rng, n, tier):
    """(escape text, expected char) pairs."""
    out = [("\\n", "\n"), ("\\r", "\r"), ("\\t", "\t"), ("\\\\", "\\"), ('\\"', '"'), ("\\'", "'"), ("\\0", "\0")]
    for v in range(256):
        out.append(("\\x%02x" % v, chr(v)))
        if v >= 0xA0 or v in (0x0a, 0x1b, 0x4f, 0x7f):
            out.append(("\\x%02X" % v, chr(v)))
    cps = set(SPECIALS) | set(range(0, 0x100, 7)) | {0x41, 0x3b1, 0x1F600, 0xFFFF, 0x10000, 0x10FFFF, 0xA, 0x7F}
    cps -= set(range(0xD800, 0xE000))
    if n:
        while len(cps) < n:
            cp = rng.randrange(MAXCP)
            if not 0xD800 <= cp < 0xE000:
                cps.add(cp)
    for cp in sorted(cps):
        h = "%X" % cp
        for digits in range(max(2, len(h)), 7):
            hh = h.rjust(digits, "0")
            out.append(("\\u{%s}" % hh, chr(cp)))
            if digits == max(2, len(h)) and hh.lower() != hh:
                out.append(("\\u{%s}" % hh.lower(), chr(cp)))
    return out


# ----------------------------------------------------------------------------- plumbing

EXPLICIT = [("id", n) for n in list(refpeg.ASCII) + ["NEWLINE", "ANY"]]


def shards(tier: str):
    return [{"idx": i} for i in range(16)]


def run_shard(ctx: Ctx, spec):
    import random

    import hypothesis
    from hypothesis import HealthCheck, Phase, settings

    from pestverif.modes import Modes

    idx = spec["idx"]
    size = SIZES[ctx.tier]
    modes = Modes()
    try:
        # A. explicit built-ins: full sweep, this shard takes chunk idx of the code space of every rule
        chunk = MAXCP // 16
        iv = [(idx * chunk, (idx + 1) * chunk if idx < 15 else MAXCP)]
        for x in EXPLICIT:
            check_sweep(ctx, modes, x, iv, "builtin")
        ctx.exhaustive.update({"complete": True, "explicit_builtins": len(EXPLICIT), "code_points": MAXCP})
        if idx == 0:
            ctx.sample({"X": "ASCII_HEX_DIGIT", "sweep": "U+0000..U+10FFFF in 16 chunks", "modes": 4})
            # NEWLINE's two-character member
            for side, w in (("raw", modes.raw), ("opt", modes.opt)):
                res = w.call("pestverif.props.c12:strings", {"grammar": "r = { NEWLINE }\n", "which": ["int", "gen"],
                                                               "calls": [("r", "\r\n"), ("r", "\n\r")]})
                for which in ("int", "gen"):
                    ctx.evals += 2
                    if res.get(which) != [True, False]:
                        ctx.violation(f"{side}-{which}:newline-crlf", {"x": ["id", "NEWLINE"], "mode": f"{side}-{which}", "cp": 13},
                                      f"NEWLINE on CR LF / LF CR consumed-all = {res.get(which)}, expected [True, False]")

        # B. generated family
        @hypothesis.seed(ctx.sub_seed("family"))
        @settings(max_examples=max(1, size["family"] // 16 + 1), deadline=None, database=None,
                  phases=[Phase.generate], suppress_health_check=list(HealthCheck))
        @hypothesis.given(family_strategy())
        def fam(x):
            ivs = [(0, MAXCP)] if ctx.tier == "thorough" else intervals_of(boundary_cps(x))
            ctx.count("family_members")
            check_sweep(ctx, modes, x, ivs, "family")
            if len(ctx.samples) < 4:
                ctx.sample({"X": gprint.pr(x), "code_points_swept": sum(b - a for a, b in ivs)})

        fam()

        # B2. regex-special characters in every role inside a merged class (deterministic matrix)
        matrix = []
        for c in "]-^\\[&|~.$*+?(){}":
            o = ord(c)
            lo2, hi2 = chr(max(o - 3, 0x21)), chr(min(o + 3, 0x7E))
            matrix += [
                ("alt", (("str", c), ("str", "a"))),
                ("alt", (("str", "a"), ("str", c))),
                ("alt", (("str", c), ("range", "a", "z"))),
                ("alt", (("range", c, "z"), ("range", "x", "z"), ("str", "!"))) if c < "z" else ("alt", (("str", c), ("str", "!"))),
                ("alt", (("range", c, hi2), ("str", "é"))),
                ("alt", (("range", lo2, c), ("range", "0", "9"))),
                ("alt", (("str", c), ("str", "!"), ("range", "0", "9"))),
                ("alt", (("ci", "k"), ("str", c))),
                ("alt", (("str", c), ("str", c), ("str", "z"))),
            ]
        # B3. every explicit built-in merged with literals, ranges and another built-in (what WHITESPACE = _{ " " |
        # "\\t" | NEWLINE } turns into): the merged class must still be the union of its members
        for b in EXPLICIT:
            if b[1] == "ANY":
                continue
            matrix += [
                ("alt", (("str", " "), ("str", "\t"), b)),
                ("alt", (b, ("str", "x"))),
                ("alt", (("range", "a", "c"), b, ("str", "!"))),
                ("alt", (b, ("id", "ASCII_DIGIT"))),
                ("alt", (("id", "NEWLINE"), b)),
            ]
        # B4. one-character case-insensitive literals over cased non-ASCII letters (and ASCII letters whose Unicode
        # case images leave ASCII): no folding outside ASCII, alone and inside a merged class (seeded change S65)
        for c in "éÉßǅσςİıKµÿks":
            matrix += [
                ("ci", c),
                ("alt", (("ci", c), ("str", "x"))),
                ("alt", (("ci", c), ("ci", "k"), ("str", "x"), ("range", "0", "3"))),
                ("alt", (("range", "0", "3"), ("ci", c))),
            ]
        for j, x in enumerate(matrix):
            if j % 16 != idx:
                continue
            ctx.count("special_character_matrix")
            check_sweep(ctx, modes, x, intervals_of(boundary_cps(x)), "specials")

        # C. unicode property built-ins: cross-mode equality
        names = unicode_rule_names()
        rng = random.Random(ctx.sub_seed("props"))
        mine = [n for j, n in enumerate(names) if j % 16 == idx]
        if ctx.tier == "quick":
            mine = mine[: max(1, size["props"] // 16 + 1)]
        for n in mine:
            x = ("id", n)
            ivs = [(0, MAXCP)] if ctx.tier == "thorough" else intervals_of(
                set(range(0x500)) | set(SPECIALS) | set(range(0, MAXCP, 61)))
            ctx.count("unicode_property_rules")
            check_sweep(ctx, modes, x, ivs, "unicode-prop")

        # D. case-insensitive literals of length 1-2 over ASCII letters x all ASCII inputs of that length
        letters = "azAZkKsSmq"
        lits = [a for a in letters] + [a + b for a in "aZkS" for b in "bQsK"]
        for j, lit in enumerate(lits):
            if j % 16 != idx:
                continue
            grammar = "r = { ^" + gprint.esc_string(lit) + " }\n"
            if len(lit) == 1:
                inputs = [chr(c) for c in range(128)]
            else:
                inputs = [chr(a) + chr(b) for a in range(128) for b in range(128)]
            for side, w in (("raw", modes.raw), ("opt", modes.opt)):
                res = w.call("pestverif.props.c12:strings", {"grammar": grammar, "which": ["int", "gen"],
                                                               "calls": [("r", s) for s in inputs]})
                if res["load"][0] != "ok":
                    ctx.count("frontend_rejected:" + side)
                    continue
                for which in ("int", "gen"):
                    got = res.get(which)
                    if not isinstance(got, list):
                        continue
                    ctx.evals += len(inputs)
                    ctx.nontrivial(["ci", lit, side, which])
                    for s, g in zip(inputs, got):
                        want = s.lower() == lit.lower()
                        if g != want:
                            ctx.violation(f"{side}-{which}:ci-literal", {"ci": lit, "input": s, "mode": f"{side}-{which}"},
                                          f"^{lit!r} on {s!r}: accepted={g}, specified={want}")
                            break

        # E. escapes
        cases = escape_cases(rng, size["escapes"] if ctx.tier == "quick" else 0, ctx.tier)
        if ctx.tier == "thorough":
            lo = idx * (MAXCP // 16)
            hi = (idx + 1) * (MAXCP // 16) if idx < 15 else MAXCP
            for cp in range(lo, hi):
                if 0xD800 <= cp < 0xE000:
                    continue
                h = "%X" % cp
                cases.append(("\\u{%s}" % h.rjust(max(2, len(h)), "0"), chr(cp)))
                if len(h) < 6:
                    cases.append(("\\u{%s}" % h.rjust(6, "0").lower(), chr(cp)))
        mine_cases = [c for j, c in enumerate(cases) if j % 16 == idx] if ctx.tier == "quick" else cases
        check_escapes(ctx, modes, mine_cases)
    finally:
        modes.close()


def check_escapes(ctx, modes, cases, batch=400):
    """Each escape in string position and in both range positions, many rules per grammar."""
    for b in range(0, len(cases), batch):
        part = cases[b : b + batch]
        lines, calls, wants = [], [], []
        for i, (esc, ch) in enumerate(part):
            lines.append(f's{i} = {{ "{esc}" }}')
            calls.append((f"s{i}", ch))
            wants.append((esc, ch, "string"))
            # the same escape in the other literal positions: case-insensitive literal, PUSH_LITERAL argument,
            # and after an escaped backslash (where it is no escape at all: "\\\\n" is a backslash and an n)
            lines.append(f'c{i} = {{ ^"{esc}" }}')
            calls.append((f"c{i}", ch))
            wants.append((esc, ch, "ci-string"))
            lines.append(f'p{i} = {{ PUSH_LITERAL("{esc}") ~ PEEK }}')
            calls.append((f"p{i}", ch))
            wants.append((esc, ch, "push-literal"))
            # followed by further characters of the same literal (an escape must not swallow what follows it)
            lines.append(f'f{i} = {{ "{esc}z" }}')
            calls.append((f"f{i}", ch + "z"))
            wants.append((esc, ch, "string-followed-by-a-character"))
            lines.append(f'g{i} = {{ ^"{esc}{esc}9" }}')
            calls.append((f"g{i}", ch + ch + "9"))
            wants.append((esc, ch, "ci-string-escape-twice"))
            if esc not in ('\\"', "\\\\"):
                raw = "\\" + esc[1:]
                lines.append(f'd{i} = {{ "\\{esc}" }}')
                calls.append((f"d{i}", raw))
                wants.append((esc, ch, "string-after-escaped-backslash"))
                lines.append(f'e{i} = {{ ^"\\{esc}" }}')
                calls.append((f"e{i}", raw))
                wants.append((esc, ch, "ci-string-after-escaped-backslash"))
            if esc != '\\"':
                lines.append(f"a{i} = {{ '{esc}'..'\\u{{10FFFF}}' }}")
                lines.append(f"b{i} = {{ '\\u{{00}}'..'{esc}' }}")
                # lower bound: ch accepted, ch-1 rejected; upper bound: ch accepted, ch+1 rejected
                calls.append((f"a{i}", ch))
                wants.append((esc, ch, "range-low accepts the bound"))
                calls.append((f"b{i}", ch))
                wants.append((esc, ch, "range-high accepts the bound"))
                if ord(ch) > 0:
                    calls.append((f"a{i}", chr(ord(ch) - 1)))
                    wants.append((esc, ch, "range-low rejects bound-1"))
                if ord(ch) + 1 < MAXCP:
                    calls.append((f"b{i}", chr(ord(ch) + 1)))
                    wants.append((esc, ch, "range-high rejects bound+1"))
        grammar = "\n".join(lines) + "\n"
        res = modes.raw.call("pestverif.props.c12:strings", {"grammar": grammar, "which": ["int"], "calls": calls})
        if res["load"][0] != "ok":
            if len(part) > 1:
                half = max(1, len(part) // 2)
                check_escapes(ctx, modes, part[:half], half)
                check_escapes(ctx, modes, part[half:], len(part) - half)
            else:
                ctx.count("frontend_rejected:escape")
                ctx.count("frontend_rejected:escape:" + part[0][0][:2])
            continue
        for (esc, ch, what), got in zip(wants, res["int"]):
            ctx.evals += 1
            want = "rejects" not in what
            ctx.nontrivial(["esc", esc, what])
            if got != want:
                ctx.violation(f"escape:{esc[:2]}:{what.split()[0]}", {"escape": esc, "char": ord(ch), "what": what},
                              f"{esc} should denote U+{ord(ch):04X}; {what}: got {got}")


def replay(case):
    from pestverif.gast import tup
    from pestverif.modes import Modes

    class _Ctx:
        def __init__(self):
            self.evals = 0
            self.v = []

        def count(self, *a, **k):
            pass

        def nontrivial(self, *a):
            pass

        def violation(self, bucket, c, detail):
            self.v.append((bucket, c, detail))

    m = Modes()
    try:
        c = _Ctx()
        if "x" in case:
            x = tup(case["x"])
            cp = case["cp"]
            check_sweep(c, m, x, [(max(0, cp - 1), min(MAXCP, cp + 2))], "replay")
            for bucket, cc, detail in c.v:
                if cc["mode"] == case["mode"]:
                    return detail
            return None
        if "ci" in case:
            lit, s, mode = case["ci"], case["input"], case["mode"]
            side, which = mode.split("-")
            w = m.raw if side == "raw" else m.opt
            res = w.call("pestverif.props.c12:strings", {"grammar": "r = { ^" + gprint.esc_string(lit) + " }\n",
                                                           "which": [which], "calls": [("r", s)]})
            if res["load"][0] != "ok":
                return None
            got = res[which][0]
            want = s.lower() == lit.lower()
            return None if got == want else f"^{lit!r} on {s!r}: accepted={got}, specified={want}"
        if "escape" in case:
            check_escapes(c, m, [(case["escape"], chr(case["char"]))])
            return c.v[0][2] if c.v else None
        return None
    finally:
        m.close()
