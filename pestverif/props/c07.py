"""C07 - parse() is total (Pairs or PestParsingError) and deterministic."""

from __future__ import annotations

from pestverif import fullcase, gprint, refdiff
from pestverif.runner import Ctx

ID = "C07"
RULE = (
    "Hypothesis-driven constructive grammar generator, profile full (well formed by construction: no left "
    "recursion, no undefined rule, no repetition over a nullable expression), every grammar rule as start "
    "rule, inputs that reach the uncommon paths forced into every case (empty input, every kind of proper "
    "prefix of a derivation, mutations, start_pos = len), four execution modes. Oracle: the call returns "
    "Pairs or raises PestParsingError - any other exception, or exhausting the step budget while the "
    "reference evaluator needs < budget/2000 steps, is a violation - and a second identical call gives an "
    "equal result (tree; or furthest_pos, expected/unexpected rule sets and rendered message). Non-trivial: "
    "the input is empty / a proper prefix of a derivation / parsed from start_pos = len, or the parse "
    "consumed input or failed beyond start_pos; distinct by hash of (grammar, mode, rule, input, k)."
)
ASSUMPTIONS = [
    "RecursionError is outside the statement ('within the interpreter's recursion budget') and only counted",
    "non-termination is decided by a sys.monitoring step budget (3e6 JUMP|PY_START events for inputs <= 14 "
    "characters), never by wall-clock time",
]
SIZES = {"quick": 400, "thorough": 4000}


def c07_eval(req):
    """Worker side: every call twice, interpreter and generated module."""
    from pestverif import modes

    text = req["text"]
    parser, load = modes.get_parser(text)
    out = {"load": load, "int": [], "gen": [], "gen_load": None}
    if parser is None:
        return out

    def keep(raw):
        if isinstance(raw, Exception):
            return modes._safe_str(raw)
        return raw.dumps()

    def twice(target, call):
        a = modes.run_parse(target, call[0], call[1], call[2], keep=keep)
        b = modes.run_parse(target, call[0], call[1], call[2], keep=keep)
        return (a, b)

    for call in req["calls"]:
        out["int"].append(twice(parser, call))
    module, gload, _ = modes.get_module(text)
    out["gen_load"] = gload
    if module is not None:
        for call in req["calls"]:
            out["gen"].append(twice(module, call))
    return out


def judge(pair, rules, call):
    """Violation class or None / 'skip'."""
    a, b = pair
    if a[0] == "recursion":
        return "skip"
    if a[0] == "exc":
        return f"exc:{a[1]}@{a[2]}"
    if a[0] == "budget":
        want, _ = refdiff.ref_outcome(rules, call[0], call[1], call[2], budget=1500)
        if want[0] in ("budget", "unspec"):
            return "skip"
        return "nontermination"
    if a != b:
        return "nondeterministic"
    return None


def eval_case(modes, case):
    mode = case["mode"]
    worker = modes.raw if mode.startswith("raw") else modes.opt
    rules = refdiff.case_rules(case)
    call = (case["rule"], case["input"], case.get("start_pos", 0))
    res = worker.call("pestverif.props.c07:c07_eval", {"text": gprint.grammar_text(rules), "calls": [call]})
    if res["load"][0] != "ok":
        return None
    outs = res["gen"] if mode.endswith("gen") else res["int"]
    if not outs:
        return None
    cls = judge(outs[0], rules, call)
    if cls in (None, "skip"):
        return None
    return f"[{mode}] {cls}: first call {str(outs[0][0])[:300]}; second call {str(outs[0][1])[:200]}"


def shards(tier: str):
    return [{"idx": i} for i in range(16)]


def run_shard(ctx: Ctx, spec):
    import hypothesis
    from hypothesis import HealthCheck, Phase, settings
    from hypothesis import strategies as st

    from pestverif.modes import Modes

    modes = Modes()
    try:

        @hypothesis.seed(ctx.sub_seed("random"))
        @settings(max_examples=SIZES[ctx.tier], deadline=None, database=None, phases=[Phase.generate],
                  suppress_health_check=list(HealthCheck))
        @hypothesis.given(st.randoms(use_true_random=False))
        def t(rng):
            case = fullcase.draw(rng, "full", n_inputs=9)
            calls, labels = [], []
            for inp, label in case["inputs"]:
                for s in case["names"]:
                    calls.append((s, inp, 0))
                    labels.append(label)
                    if inp and rng.random() < 0.3:
                        calls.append((s, inp, len(inp)))
                        labels.append("k=len")
            ctx.count("grammars")
            for side, worker in (("raw", modes.raw), ("opt", modes.opt)):
                res = worker.call("pestverif.props.c07:c07_eval", {"text": case["text"], "calls": calls})
                if res["load"][0] != "ok":
                    ctx.count("frontend_rejected:" + side)
                    continue
                for mode, outs in ((side + "-int", res["int"]), (side + "-gen", res["gen"])):
                    for call, label, pair in zip(calls, labels, outs):
                        ctx.evals += 1
                        cls = judge(pair, case["rules"], call)
                        if cls == "skip":
                            ctx.count("skipped:" + pair[0][0])
                            continue
                        ctx.count("input_class:" + label)
                        if label in ("empty", "prefix", "k=len") or fullcase.consumed_or_late_failure(pair[0], call[2]):
                            ctx.nontrivial([case["text"], mode, call])
                        if cls is not None:
                            ctx.violation(f"{mode}:{cls}", fullcase.make_case(case, call[0], call[1], call[2], mode),
                                          f"first call {str(pair[0])[:300]}; second call {str(pair[1])[:200]}")
            if len(ctx.samples) < 3:
                ctx.sample({"grammar": case["text"], "inputs": case["inputs"][:6]})

        t()
    finally:
        modes.close()


replay = refdiff.replay_with(eval_case)
shrink = refdiff.shrink_with(eval_case)
