"""C06 - every returned parse tree is well formed (validity predicates on the public Pairs/Pair API)."""

from __future__ import annotations

import os

from pestverif import fullcase, gprint, refdiff
from pestverif.runner import ROOT, Ctx, repo_root

ID = "C06"
RULE = (
    "generated grammars (profile full, optimizer off/on, interpreter and generated module, every rule as start "
    "rule, start_pos 0 and a random k) plus the bundled grammars (json x2, toml, sql, http, jsonpath, "
    "calculator x2, lists, ini, csv, grammar, surround, reporting) on corpus inputs and their mutations. Every "
    "successful parse is checked inside the worker: spans inside start_pos..len and inside the parent, "
    "text/str/as_str/span consistent with the input slice, children ordered and non-overlapping, names are "
    "non-silent rules or EOI, tags are written in the grammar, tokens() balanced with non-decreasing "
    "positions and exactly the Start(start) .. children .. End(end) stream of the pairs, "
    "flatten() is its pre-order, inner()/stream() step through the children, one root pair at "
    "start_pos for a non-silent start rule, dump()/dumps() render and agree. Non-trivial: a successful parse "
    "with >= 3 pairs or nesting depth >= 2; distinct by hash of (grammar, mode, rule, input, k)."
)
ASSUMPTIONS = ["the predicates are exactly the clauses of the statement; nothing about which tree is right"]
SIZES = {"quick": {"grammars": 300, "mut": 8}, "thorough": {"grammars": 3000, "mut": 200}}
KEEP = "pestverif.treecheck:check_pairs"


def tree_stats(tree):
    def walk(ps, d):
        n, md = 0, d
        for _n, _s, _e, _t, c in ps:
            cn, cd = walk(c, d + 1)
            n += 1 + cn
            md = max(md, cd)
        return n, md

    return walk(tree, 0)


def eval_case(modes, case):
    mode = case["mode"]
    worker = modes.raw if mode.startswith("raw") else modes.opt
    if "grammar_file" in case:
        text = open(os.path.join(repo_root(), case["grammar_file"]), encoding="utf-8").read()
        info = case["info"]
    else:
        rules = refdiff.case_rules(case)
        text = gprint.grammar_text(rules)
        info = fullcase.grammar_info(rules)
    res = worker.call(
        "pestverif.modes:eval_grammar",
        {"text": text, "calls": [(case["rule"], case["input"], case.get("start_pos", 0))],
         "gen": mode.endswith("gen"), "keep": KEEP, "keep_info": info},
    )
    if res["load"][0] != "ok":
        return None
    outs = res["gen"] if mode.endswith("gen") else res["int"]
    if not outs or outs[0][0] != "ok" or not outs[0][2]:
        return None
    return f"[{mode}] {bucket_of(outs[0][2][0])}: " + "; ".join(outs[0][2])


def bucket_of(msg: str) -> str:
    head = msg.split(":")[0]
    for key in ("not inside", "outside start_pos", "span", "overlap", "text/str", "name", "tag", "tokens()", "flatten()", "dumps()", "dump()",
                "json.loads", "stream()", "inner()", "root pair", "start rule", "raised", "iteration", "inner_texts"):
        if key in msg:
            return key.replace(":", "")
    return head[:30]


def bundled():
    """(grammar path relative to /repo, start rule, corpus inputs)."""
    corpus = os.path.join(ROOT, "corpus")
    out = []
    import json

    index = json.load(open(os.path.join(corpus, "index.json"), encoding="utf-8"))
    for ent in index:
        out.append((ent["grammar"], ent["rule"], ent["inputs"]))
    return out


def shards(tier: str):
    return [{"idx": i} for i in range(16)]


def run_shard(ctx: Ctx, spec):
    import hypothesis
    from hypothesis import HealthCheck, Phase, settings
    from hypothesis import strategies as st

    from pestverif import ggen
    from pestverif.corpus import grammar_facts
    from pestverif.modes import Modes

    modes = Modes()
    size = SIZES[ctx.tier]

    def handle(ctx, text, info, calls, mk_case, key_text):
        for side, worker in (("raw", modes.raw), ("opt", modes.opt)):
            res = worker.call(
                "pestverif.modes:eval_grammar",
                {"text": text, "calls": calls, "gen": True, "keep": KEEP, "keep_info": info},
            )
            if res["load"][0] != "ok":
                ctx.count("frontend_rejected:" + side)
                continue
            for mode, outs in ((side + "-int", res["int"]), (side + "-gen", res["gen"])):
                for call, out in zip(calls, outs):
                    if out[0] != "ok":
                        ctx.count("not_a_tree:" + out[0])
                        continue
                    ctx.evals += 1
                    n, depth = tree_stats(out[1])
                    if n >= 3 or depth >= 2:
                        ctx.nontrivial([key_text, mode, call])
                    if out[2]:
                        ctx.violation(f"{mode}:{bucket_of(out[2][0])}", mk_case(call, mode), "; ".join(out[2]))

    try:

        @hypothesis.seed(ctx.sub_seed("random"))
        @settings(max_examples=size["grammars"], deadline=None, database=None, phases=[Phase.generate],
                  suppress_health_check=list(HealthCheck))
        @hypothesis.given(st.randoms(use_true_random=False))
        def t(rng):
            case = fullcase.draw(rng, "full")
            calls = []
            for inp, _label in case["inputs"]:
                ks = {0}
                if inp:
                    ks.add(rng.randint(0, len(inp)))
                for s in case["names"] + ["EOI"]:
                    for k in sorted(ks):
                        calls.append((s, inp, k))
            ctx.count("grammars")
            handle(ctx, case["text"], case["info"], calls,
                   lambda call, mode: fullcase.make_case(case, call[0], call[1], call[2], mode), case["text"])
            if len(ctx.samples) < 2:
                ctx.sample({"grammar": case["text"], "inputs": [i for i, _ in case["inputs"]][:5]})

        t()

        # bundled grammars on corpus inputs and their mutations
        import random

        files = sorted({g for g, _, _ in bundled()})
        for gi, (gpath, rule, inputs) in enumerate(bundled()):
            if files.index(gpath) % 16 != spec["idx"]:
                continue
            rng = random.Random(ctx.sub_seed("corpus", gpath, rule))
            text = open(os.path.join(repo_root(), gpath), encoding="utf-8").read()
            info = grammar_facts(text)
            alpha = "".join(sorted(set("".join(inputs))))[:80] or "a"
            muts = []
            for inp in inputs:
                for _ in range(size["mut"]):
                    m = inp
                    for _ in range(rng.randint(1, 3)):
                        m = ggen.mutate(rng, m, alpha)
                    muts.append(m)
            allin = list(inputs) + muts
            calls = [(rule, x, 0) for x in allin]
            ctx.count("bundled_grammar_runs")
            handle(ctx, text, info, calls,
                   lambda call, mode, gpath=gpath, info=info: {"grammar_file": gpath, "info": info, "rule": call[0],
                                                              "input": call[1], "start_pos": call[2], "mode": mode},
                   gpath)
            if len(ctx.samples) < 4:
                ctx.sample({"grammar_file": gpath, "rule": rule, "input": allin[0][:80]})
    finally:
        modes.close()


replay = refdiff.replay_with(eval_case)


def shrink(case):
    if "grammar_file" in case:
        from pestverif.modes import Modes
        from pestverif.shrink import ddmin_str

        m = Modes()
        try:
            first = eval_case(m, case)
            if not first:
                return case
            cls = first.split(":")[0]

            def fails(s):
                r = eval_case(m, {**case, "input": s})
                return bool(r) and r.split(":")[0] == cls

            return {**case, "input": ddmin_str(case["input"], fails, 150)}
        finally:
            m.close()
    return refdiff.shrink_with(eval_case)(case)
