"""C03 - core PEG operators follow pest's matching semantics (reference evaluator vs raw interpreter)."""

from __future__ import annotations

import itertools

from pestverif import ganalysis, gast, ggen, gprint, refdiff
from pestverif.gast import BUILTIN_IDS
from pestverif.runner import Ctx

ID = "C03"
RULE = (
    "exhaustive: every grammar r0 = { E }, r1 = M{ B } with E of at most 4 (quick) / 5 (thorough) nodes over "
    'the terminals "a" "b" "ab" ^"a" \'a\'..\'b\' ANY SOI EOI ASCII_DIGIT r1 and the operators ~ | ? * + {2} {1,} '
    "{,2} {1,2} & !, M in {normal, silent}, B from 6 bodies (r1 variants only where r1 occurs; ill-formed "
    "grammars are skipped by the well-formedness analysis), x all inputs over {a,b} of length <= 4 plus 1, A, "
    "aB; random: Hypothesis-driven constructive generator (profile core: up to 5 rules, depth 4, guarded "
    "recursion, predicates in repetitions, prefix alternatives) with derived / mutated / random inputs. "
    "Oracle: the reference PEG evaluator; compared: success/failure and the full tree (rule names, spans, "
    "nesting) of Parser.from_grammar(g, optimizer=None).parse. A (grammar, rule, input) case is non-trivial "
    "when the reference derivation backtracked after consuming input, produced >= 2 pairs, or evaluated a "
    "predicate over a rule; distinct by hash of the case."
)
ASSUMPTIONS = [
    "the reference evaluator (pestverif/refpeg.py) is the reading of pest's PEG semantics given in DESIGN.md 3",
    "cases the statements leave open (non-ASCII case-insensitive comparison, nullable repetition bodies, ...) "
    "are discarded and counted, never reported",
]

TERMINALS = [
    ("str", "a"), ("str", "b"), ("str", "ab"), ("ci", "a"), ("range", "a", "b"),
    ("id", "ANY"), ("id", "SOI"), ("id", "EOI"), ("id", "ASCII_DIGIT"), ("id", "r1"),
]
UNARY = [
    lambda e: ("opt", e), lambda e: ("star", e), lambda e: ("plus", e), lambda e: ("exact", e, 2),
    lambda e: ("min", e, 1), lambda e: ("max", e, 2), lambda e: ("minmax", e, 1, 2),
    lambda e: ("and", e), lambda e: ("not", e),
]
R1_BODIES = [
    ("str", "a"), ("alt", (("str", "ab"), ("str", "a"))), ("opt", ("str", "b")),
    ("seq", (("str", "a"), ("opt", ("id", "r1")))), ("plus", ("range", "a", "b")), ("seq", (("id", "ANY"), ("not", ("str", "b")))),
]
INPUTS = ["".join(p) for n in range(5) for p in itertools.product("ab", repeat=n)] + ["1", "A", "aB"]
SIZES = {"quick": {"nodes": 4, "random": 200}, "thorough": {"nodes": 5, "random": 5000}}

_memo: dict[int, list] = {}


def exprs(n):
    if n in _memo:
        return _memo[n]
    out = []
    if n == 1:
        out = list(TERMINALS)
    else:
        for e in exprs(n - 1):
            for u in UNARY:
                out.append(u(e))
        for i in range(1, n - 1):
            for a in exprs(i):
                for b in exprs(n - 1 - i):
                    out.append(("seq", (a, b)))
                    out.append(("alt", (a, b)))
    _memo[n] = out
    return out


def nontrivial(stats, want) -> bool:
    if stats.get("backtrack_after_progress") or stats.get("rule_in_predicate"):
        return True
    if want[0] == "ok":
        def count(ps):
            return sum(1 + count(p[3]) for p in ps)

        return count(want[1]) >= 2
    return False


def check_grammar(ctx: Ctx, worker, rules, calls, exhaustive: bool, mode="raw-int"):
    text = gprint.grammar_text(rules)
    wants = []
    live = []
    for call in calls:
        want, stats = refdiff.ref_outcome(rules, call[0], call[1], call[2])
        if want[0] in ("unspec", "budget"):
            ctx.count("discarded_" + want[0])
            continue
        wants.append((want, stats))
        live.append(call)
    if not live:
        return
    res = worker.call("pestverif.modes:eval_grammar", {"text": text, "calls": live, "gen": False})
    if res["load"][0] != "ok":
        ctx.count("frontend_rejected")
        if res["load"][0] == "exc" and len(ctx.samples) < 4:
            ctx.count("frontend_exception")
        return
    for call, (want, stats), got in zip(live, wants, res["int"]):
        ctx.evals += 1
        ctx.count("ref_" + want[0])
        cls = refdiff.classify(got, want)
        if cls == "inconclusive":
            ctx.count("budget_exhausted")
            continue
        if nontrivial(stats, want):
            if exhaustive:
                ctx.nt_extra += 1
            else:
                ctx.nontrivial([text, call])
        if cls is not None:
            ctx.violation(
                f"{mode}:{cls}",
                refdiff.make_case(rules, call[0], call[1], call[2], mode),
                refdiff.describe(got, want),
            )


def shards(tier: str):
    return [{"idx": i} for i in range(16)]


def run_shard(ctx: Ctx, spec):
    import hypothesis
    from hypothesis import HealthCheck, Phase, settings
    from hypothesis import strategies as st

    from pestverif.modes import Worker

    size = SIZES[ctx.tier]
    worker = Worker("raw")
    try:
        # ---- exhaustive part
        k = 0
        calls_all = [("r0", inp, 0) for inp in INPUTS]
        for n in range(1, size["nodes"] + 1):
            for e in exprs(n):
                k += 1
                if k % 16 != spec["idx"]:
                    continue
                uses_r1 = any(x == ("id", "r1") for x in gast.walk(e))
                variants = (
                    [(m, b) for m in ("", "_") for b in R1_BODIES] if uses_r1 else [("", ("str", "a"))]
                )
                for m, b in variants:
                    rules = [("r0", "", e), ("r1", m, b)]
                    if ganalysis.Analysis(rules).problems(BUILTIN_IDS):
                        ctx.count("exhaustive_illformed_skipped")
                        continue
                    ctx.count("exhaustive_grammars")
                    check_grammar(ctx, worker, rules, calls_all, True)
                    if len(ctx.samples) < 2 and n == 4 and uses_r1:
                        ctx.sample({"grammar": gprint.grammar_text(rules), "inputs": "all 34"})
        ctx.exhaustive.update({"complete": True, "max_expression_nodes": size["nodes"], "inputs": len(INPUTS)})

        # ---- random part
        @hypothesis.seed(ctx.sub_seed("random"))
        @settings(
            max_examples=size["random"],
            deadline=None,
            database=None,
            phases=[Phase.generate],
            suppress_health_check=list(HealthCheck),
        )
        @hypothesis.given(st.randoms(use_true_random=False))
        def t(rng):
            rules = ggen.Gen(rng, ggen.PROFILES["core"]).grammar()
            probs = ganalysis.Analysis(rules).problems(BUILTIN_IDS)
            if probs:
                raise RuntimeError(f"generator produced an ill-formed grammar: {probs} {rules}")
            starts = [n for n, _, _ in rules if n.startswith("r")]
            inputs = ggen.inputs_for(rng, rules, starts[:2], 10)
            calls = [(s, inp, 0) for inp in inputs for s in starts[:2]]
            ctx.count("random_grammars")
            check_grammar(ctx, worker, rules, calls, False)
            if len(ctx.samples) < 4:
                ctx.sample({"grammar": gprint.grammar_text(rules), "inputs": inputs[:5]})

        t()
    finally:
        worker.close()


def replay(case):
    from pestverif.modes import Modes

    m = Modes()
    try:
        return refdiff.eval_case(m, case)
    finally:
        m.close()


def shrink(case):
    from pestverif.modes import Modes

    m = Modes()
    try:
        first = refdiff.eval_case(m, case)
        if not first:
            return case
        cls = first.split(":")[0]

        def fails(c):
            r = refdiff.eval_case(m, c)
            return bool(r) and r.split(":")[0] == cls

        return refdiff.shrink_case(case, fails)
    finally:
        m.close()
