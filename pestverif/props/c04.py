"""C04 - implicit WHITESPACE/COMMENT and atomicity modifiers (reference evaluator vs all four modes)."""

from __future__ import annotations

from pestverif import ganalysis, ggen, gprint, refdiff
from pestverif.gast import BUILTIN_IDS
from pestverif.runner import Ctx

ID = "C04"
RULE = (
    "Hypothesis-driven constructive grammar generator, profile trivia: none/one/both of WHITESPACE and COMMENT "
    "(silent or not; single literals, choices, silent-rule indirection, multi-element comment bodies), rule "
    "modifiers _ @ $ ! on up to 6 rules calling each other, every repetition form; inputs are derivations "
    "with trivia injected between sequence elements and repetition iterations, after the last iteration, "
    "leading, trailing, inside atomic spans, plus unterminated comments, mutations and random strings. "
    "Oracle: reference evaluator; compared in raw-int, raw-gen, opt-int, opt-gen: outcome and full tree "
    "including trivia pairs and the children of @ rules. Non-trivial: the input contains a trivia character "
    "and the reference skipped trivia, gave trailing trivia back, or entered an @/$/! rule; distinct by "
    "(grammar, rule, input, mode). Plus two deterministic matrices: every combination of a WHITESPACE and a "
    "COMMENT definition (absent / each body, silent or not: 194 configurations) around seven fixed rules using "
    "every modifier, with trivia in every gap of the base inputs; and every assignment of the five modifiers to "
    "a chain of 2..3 (quick) / 2..4 (thorough) rules x three trivia settings x trivia in every subset of levels."
)
ASSUMPTIONS = [
    "reference semantics of DESIGN.md 3 (pest's skip = (WHITESPACE | COMMENT)*, atomicity nesting as in "
    "pest's state.rule / state.atomic)",
    "WHITESPACE/COMMENT bodies use terminals and silent rules only; trivia rules with @ $ ! modifiers or "
    "stack operations are unspecified and not generated",
]
SIZES = {"quick": 400, "thorough": 4000}
MODES = refdiff.ALL_MODES


def trivia_chars(rules) -> str:
    out = ""
    for n, _, e in rules:
        if n in ("WHITESPACE", "COMMENT", "ws__"):
            out += ggen.alphabet_of([(n, "", e)])
    return out


def nontrivial_factory(tchars):
    def nontrivial(stats, want, call):
        if not any(c in tchars for c in call[1]):
            return False
        return bool(
            stats.get("trivia_skipped") or stats.get("trailing_trivia_given_back") or stats.get("entered_atomic")
        )

    return nontrivial


def trivia_inputs(rng, rules, starts, n):
    base = ggen.inputs_for(rng, rules, starts, n)
    d = ggen.Deriver(rng, rules)
    samples = d.trivia_samples or [" "]
    out = list(base)
    seen = set(out)
    for s in base[: max(3, n // 2)]:
        t = rng.choice(samples)
        k = rng.randrange(5)
        if k == 0:
            v = t + s
        elif k == 1:
            v = s + t
        elif k == 2 and s:
            i = rng.randrange(len(s) + 1)
            v = s[:i] + t + s[i:]
        elif k == 3:
            v = s + t[: max(1, len(t) // 2)]  # partial (unterminated) comment / trivia
        else:
            v = s + t + t
        v = v[:18]
        if v not in seen:
            seen.add(v)
            out.append(v)
    return out


def run_matrices(ctx: Ctx, modes, idx, excluded):
    """Deterministic matrices (pestverif/tmatrix.py): every trivia configuration x fixed main rules, and every
    modifier chain of 2..3 (quick) / 2..4 (thorough) rules, all four modes against the reference."""
    from pestverif import tmatrix

    cases = tmatrix.trivia_cases(ctx.tier) + tmatrix.chain_cases(ctx.tier)
    for k, (label, rules, calls) in enumerate(cases):
        if k % 16 != idx:
            continue
        ctx.count("matrix_grammars:" + label.split("-")[0].rstrip("0123456789"))
        tchars = trivia_chars(rules) or " #"
        refdiff.check_grammar(ctx, modes, rules, calls, MODES, nontrivial_factory(tchars), excluded=excluded)
    ctx.exhaustive.update({"complete": True, "matrix_grammars": len(cases),
                           "matrix_calls": sum(len(c[2]) for c in cases)})


def shards(tier: str):
    return [{"idx": i} for i in range(16)]


def run_shard(ctx: Ctx, spec):
    import hypothesis
    from hypothesis import HealthCheck, Phase, settings
    from hypothesis import strategies as st

    from pestverif.findings import excluder
    from pestverif.modes import Modes

    modes = Modes()
    excluded = excluder(ID)
    try:

        @hypothesis.seed(ctx.sub_seed("random"))
        @settings(
            max_examples=SIZES[ctx.tier],
            deadline=None,
            database=None,
            phases=[Phase.generate],
            suppress_health_check=list(HealthCheck),
        )
        @hypothesis.given(st.randoms(use_true_random=False))
        def t(rng):
            feats = set(ggen.PROFILES["trivia"])
            if rng.random() < 0.3:
                feats.add("bait")  # skip-until shapes and squashable choices next to trivia and modifiers
            rules = ggen.Gen(rng, feats, max_rules=6).grammar()
            probs = ganalysis.Analysis(rules).problems(BUILTIN_IDS)
            if probs:
                raise RuntimeError(f"generator produced an ill-formed grammar: {probs} {rules}")
            starts = [n for n, _, _ in rules if n.startswith("r")]
            inputs = trivia_inputs(rng, rules, starts[:2], 8)
            calls = [(s, inp, 0) for inp in inputs for s in starts[:2]]
            names = {n for n, _, _ in rules}
            ctx.count("grammars")
            ctx.count(
                "trivia_rules:"
                + ("both" if {"WHITESPACE", "COMMENT"} <= names else "ws" if "WHITESPACE" in names
                   else "comment" if "COMMENT" in names else "none")
            )
            refdiff.check_grammar(
                ctx, modes, rules, calls, MODES, nontrivial_factory(trivia_chars(rules)), excluded=excluded
            )
            if len(ctx.samples) < 3 and ("WHITESPACE" in names or "COMMENT" in names):
                ctx.sample({"grammar": gprint.grammar_text(rules), "inputs": inputs[:6]})

        t()
        run_matrices(ctx, modes, spec["idx"], excluded)
    finally:
        modes.close()


replay = refdiff.std_replay
shrink = refdiff.std_shrink
