"""C13 - parse failures carry a valid position and a message that always renders."""

from __future__ import annotations

import os

from pestverif import fullcase, gprint, refdiff
from pestverif.runner import Ctx, repo_root

ID = "C13"
RULE = (
    "generated grammars (profile full) and tests/grammars/reporting.pest, four execution modes; rejected "
    "inputs only: empty, derivations cut short, mutations, random strings, each also embedded after a "
    "multi-line / non-ASCII prefix (LF and CR LF line breaks; a CR never on its own) and parsed from start_pos = len(prefix), with LF-terminated and "
    "unterminated last lines, failures at offset 0, at end of input, on an empty line, right after a "
    "trailing newline and inside predicates. Checked inside the worker on the live PestParsingError: "
    "furthest_pos is -1 or within start_pos..len; expected/unexpected rule names are grammar rules or "
    "built-ins; str() and detailed_message() render non-empty without raising; error_context(text, p) and "
    "the rendered 'line:col' / source line are those of p (closed form of C14; column base calibrated "
    "from the implementation). Non-trivial: p > start_pos or the text has >= 2 lines; distinct by (grammar, mode, rule, "
    "text, k)."
)
ASSUMPTIONS = [
    "LF is the only line break in generated texts",
    "the column base is not fixed by the statement: 0-based and 1-based are both accepted",
]
SIZES = {"quick": 120, "thorough": 3000}
KEEP = "pestverif.errcheck:check_error"
# CR only ever as part of CR LF: there the LF reading and the str.splitlines reading of "line" agree
PREFIXES = ["", "", "x\n", "é\n\n", "ab\ncd\n", "q\n  ", "\n", "αβγ\nδ", "ab\r\n", "a\r\n\r\ncd\r\n", "x\r\ny\nz\r\n  "]
SUFFIXES = ["", "", "\n", "\n\n", "\nzz", "\né", "\r\n", "\r\nzz\r\n"]


def bucket_of(msg: str) -> str:
    for key in ("furthest_pos", "rule name", "rendering raised", "empty message", "error_context raised",
                "error_context line", "error_context column", "error_context shows", "message says line",
                "message says column", "message shows source", "header", "does not show"):
        if key in msg:
            return key
    return msg[:30]


def eval_case(modes, case):
    mode = case["mode"]
    worker = modes.raw if mode.startswith("raw") else modes.opt
    if "grammar_file" in case:
        text = open(os.path.join(repo_root(), case["grammar_file"]), encoding="utf-8").read()
        info = case["info"]
    else:
        rules = refdiff.case_rules(case)
        text = gprint.grammar_text(rules)
        info = fullcase.grammar_info(rules)
    res = worker.call(
        "pestverif.modes:eval_grammar",
        {"text": text, "calls": [(case["rule"], case["input"], case.get("start_pos", 0))],
         "gen": mode.endswith("gen"), "keep": KEEP, "keep_info": info},
    )
    if res["load"][0] != "ok":
        return None
    outs = res["gen"] if mode.endswith("gen") else res["int"]
    if not outs or outs[0][0] != "fail" or not outs[0][4]:
        return None
    return f"[{mode}] {bucket_of(outs[0][4][0])}: " + "; ".join(outs[0][4])


def shards(tier: str):
    return [{"idx": i} for i in range(16)]


def run_shard(ctx: Ctx, spec):
    import random

    import hypothesis
    from hypothesis import HealthCheck, Phase, settings
    from hypothesis import strategies as st

    from pestverif import ggen
    from pestverif.corpus import grammar_facts, index
    from pestverif.modes import Modes

    modes = Modes()

    def handle(text, info, calls, mk_case, key_text):
        for side, worker in (("raw", modes.raw), ("opt", modes.opt)):
            res = worker.call(
                "pestverif.modes:eval_grammar",
                {"text": text, "calls": calls, "gen": True, "keep": KEEP, "keep_info": info},
            )
            if res["load"][0] != "ok":
                ctx.count("frontend_rejected:" + side)
                continue
            for mode, outs in ((side + "-int", res["int"]), (side + "-gen", res["gen"])):
                for call, out in zip(calls, outs):
                    if out[0] != "fail":
                        ctx.count("not_a_failure:" + out[0])
                        continue
                    ctx.evals += 1
                    p = out[1]
                    if p == -1:
                        ctx.count("sentinel_-1")
                    elif p == len(call[1]):
                        ctx.count("failure_at_end_of_input")
                    if p >= 0 and call[1][:p].endswith("\n"):
                        ctx.count("failure_at_line_start")
                    if out[3]:
                        ctx.count("failure_with_unexpected_set")
                    if p > call[2] or call[1].count("\n") >= 1:
                        ctx.nontrivial([key_text, mode, call])
                    if out[4]:
                        ctx.violation(f"{mode}:{bucket_of(out[4][0])}", mk_case(call, mode), "; ".join(out[4]))

    try:

        @hypothesis.seed(ctx.sub_seed("random"))
        @settings(max_examples=SIZES[ctx.tier], deadline=None, database=None, phases=[Phase.generate],
                  suppress_health_check=list(HealthCheck))
        @hypothesis.given(st.randoms(use_true_random=False))
        def t(rng):
            case = fullcase.draw(rng, "full", n_inputs=8)
            calls = []
            for inp, _label in case["inputs"]:
                pre = rng.choice(PREFIXES)
                suf = rng.choice(SUFFIXES)
                for s in case["main"][:3]:
                    calls.append((s, inp, 0))
                    calls.append((s, pre + inp + suf, len(pre)))
            ctx.count("grammars")
            handle(case["text"], case["info"], calls,
                   lambda call, mode: fullcase.make_case(case, call[0], call[1], call[2], mode), case["text"])
            if len(ctx.samples) < 3:
                ctx.sample({"grammar": case["text"], "calls": calls[:6]})

        t()

        if spec["idx"] < 4:
            gpath = "tests/grammars/reporting.pest"
            text = open(os.path.join(repo_root(), gpath), encoding="utf-8").read()
            info = grammar_facts(text)
            rng = random.Random(ctx.sub_seed("reporting"))
            rules = info["rule_names"]
            base = [inp for ent in index() if ent["grammar"] == gpath for inp in ent["inputs"]] + ["", "a", "b", "ab", "ba", "c"]
            calls = []
            for r in rules:
                for inp in base:
                    pre = rng.choice(PREFIXES)
                    suf = rng.choice(SUFFIXES)
                    calls.append((r, inp, 0))
                    calls.append((r, pre + ggen.mutate(rng, inp, "abcx\n") + suf, len(pre)))
            ctx.count("reporting_pest_calls", len(calls))
            handle(text, info, calls,
                   lambda call, mode: {"grammar_file": gpath, "info": info, "rule": call[0], "input": call[1],
                                       "start_pos": call[2], "mode": mode}, gpath)
    finally:
        modes.close()


replay = refdiff.replay_with(eval_case)


def shrink(case):
    if "grammar_file" in case:
        return case
    return refdiff.shrink_with(eval_case, shrink_start_pos=False)(case)
