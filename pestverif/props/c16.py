"""C16 - parsing from start_pos = k equals parsing the suffix, shifted (metamorphic)."""

from __future__ import annotations

from pestverif import fullcase, gprint, refdiff
from pestverif.runner import Ctx

ID = "C16"
RULE = (
    "Hypothesis-driven constructive grammar generator, profile soi-free (full minus SOI), texts of at most "
    "12 characters, ALL k in 0..len, four execution modes. Metamorphic oracle: parse(rule, text, start_pos=k) "
    "must equal parse(rule, text[k:]) with every span shifted by k (same tree; same furthest_pos after "
    "shifting, -1 stays -1), and must not change when the k characters before start_pos are replaced by "
    "different ones. Non-trivial: k >= 1 and the parse consumed >= 1 character or failed beyond k; distinct "
    "by hash of (grammar, mode, rule, text, k)."
)
ASSUMPTIONS = ["grammars use no SOI (the statement's precondition); outcomes other than Pairs/PestParsingError "
               "are C07's business and skipped"]
SIZES = {"quick": 100, "thorough": 2500}


def shift_tree(tree, k):
    return tuple((n, s + k, e + k, t, shift_tree(c, k)) for n, s, e, t, c in tree)


def compare(a, b, c, k):
    """a: at start_pos k; b: suffix at 0; c: other prefix at k. Violation class or None / 'skip'."""
    if any(x[0] not in ("ok", "fail") for x in (a, b, c)):
        return "skip"
    if a[0] != b[0]:
        return f"suffix:{a[0]}-vs-{b[0]}"
    if a[0] == "ok":
        if a[1] != shift_tree(b[1], k):
            return "suffix:tree"
    else:
        want = b[1] if b[1] == -1 else b[1] + k
        if a[1] != want:
            return "suffix:furthest_pos"
    if a[0] != c[0] or a[1] != c[1]:
        return "prefix-consulted"
    return None


def other_prefix(prefix: str) -> str:
    return "".join("q" if ch != "q" else "z" for ch in prefix)


def calls_for(rule, text, k):
    return [(rule, text, k), (rule, text[k:], 0), (rule, other_prefix(text[:k]) + text[k:], k)]


def eval_case(modes, case):
    mode = case["mode"]
    worker = modes.raw if mode.startswith("raw") else modes.opt
    rules = refdiff.case_rules(case)
    k = case.get("start_pos", 0)
    if k > len(case["input"]):
        return None
    calls = calls_for(case["rule"], case["input"], k)
    res = worker.call("pestverif.modes:eval_grammar",
                      {"text": gprint.grammar_text(rules), "calls": calls, "gen": mode.endswith("gen")})
    if res["load"][0] != "ok":
        return None
    outs = res["gen"] if mode.endswith("gen") else res["int"]
    if len(outs) < 3:
        return None
    cls = compare(outs[0], outs[1], outs[2], k)
    if cls in (None, "skip"):
        return None
    return (f"[{mode}] {cls}: start_pos={k}: {str(outs[0])[:250]}; suffix at 0: {str(outs[1])[:250]}; "
            f"other prefix: {str(outs[2])[:150]}")


def shards(tier: str):
    return [{"idx": i} for i in range(16)]


def run_shard(ctx: Ctx, spec):
    import hypothesis
    from hypothesis import HealthCheck, Phase, settings
    from hypothesis import strategies as st

    from pestverif.modes import Modes

    modes = Modes()
    try:

        @hypothesis.seed(ctx.sub_seed("random"))
        @settings(max_examples=SIZES[ctx.tier], deadline=None, database=None, phases=[Phase.generate],
                  suppress_health_check=list(HealthCheck))
        @hypothesis.given(st.randoms(use_true_random=False))
        def t(rng):
            case = fullcase.draw(rng, "soi-free", n_inputs=6, maxlen=12)
            calls, meta = [], []
            for inp, _label in case["inputs"]:
                # prepend a few characters so that interesting suffixes exist at k > 0
                pre = "".join(rng.choice("ab ~\n") for _ in range(rng.randint(0, 3)))
                text = (pre + inp)[:12]
                for s in case["main"][:2]:
                    for k in range(len(text) + 1):
                        meta.append((s, text, k))
                        calls.extend(calls_for(s, text, k))
            ctx.count("grammars")
            for side, worker in (("raw", modes.raw), ("opt", modes.opt)):
                res = worker.call("pestverif.modes:eval_grammar", {"text": case["text"], "calls": calls, "gen": True})
                if res["load"][0] != "ok":
                    ctx.count("frontend_rejected:" + side)
                    continue
                for mode, outs in ((side + "-int", res["int"]), (side + "-gen", res["gen"])):
                    if len(outs) != len(calls):
                        continue
                    for i, (s, text, k) in enumerate(meta):
                        a, b, c = outs[3 * i : 3 * i + 3]
                        ctx.evals += 1
                        cls = compare(a, b, c, k)
                        if cls == "skip":
                            ctx.count("skipped")
                            continue
                        if k >= 1 and fullcase.consumed_or_late_failure(a, k):
                            ctx.nontrivial([case["text"], mode, s, text, k])
                        if cls is not None:
                            ctx.violation(f"{mode}:{cls}", fullcase.make_case(case, s, text, k, mode),
                                          f"start_pos={k}: {str(a)[:250]}; suffix at 0: {str(b)[:250]}; other prefix: {str(c)[:150]}")
            if len(ctx.samples) < 3:
                ctx.sample({"grammar": case["text"], "texts": sorted({m[1] for m in meta})[:5], "k": "all 0..len"})

        t()
    finally:
        modes.close()


replay = refdiff.replay_with(eval_case)
shrink = refdiff.shrink_with(eval_case, shrink_start_pos=False)
