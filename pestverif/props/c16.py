"""C16 - parsing from start_pos = k equals parsing the suffix, shifted (metamorphic)."""

from __future__ import annotations

from pestverif import fullcase, gprint, refdiff
from pestverif.runner import Ctx

ID = "C16"
RULE = (
    "Hypothesis-driven constructive grammar generator, profile soi-free (full minus SOI), texts of at most "
    "12 characters, ALL k in 0..len, four execution modes. Metamorphic oracle: parse(rule, text, start_pos=k) "
    "must equal parse(rule, text[k:]) with every span shifted by k (same tree; same furthest_pos after "
    "shifting, -1 stays -1), and must not change when the k characters before start_pos are replaced by "
    "different ones. Plus 35 fixed position-sensitive shapes (skip-until forms over every ordered list of 1-2 stop "
    "strings, regex-based terminals, trivia, EOI, the stack) x every text up to 3-4 characters x every k. "
    "Every (rule, text, k) call is then repeated on the same Parser / module and the same text object with k "
    "descending from len(text) to 0 and compared with the same suffix results. "
    "Non-trivial: k >= 1 and the parse consumed >= 1 character or failed beyond k; distinct "
    "by hash of (grammar, mode, rule, text, k)."
)
ASSUMPTIONS = ["grammars use no SOI (the statement's precondition); outcomes other than Pairs/PestParsingError "
               "are C07's business and skipped"]
SIZES = {"quick": 100, "thorough": 2500}


def shift_tree(tree, k):
    return tuple((n, s + k, e + k, t, shift_tree(c, k)) for n, s, e, t, c in tree)


def compare(a, b, c, k):
    """a: at start_pos k; b: suffix at 0; c: other prefix at k. Violation class or None / 'skip'."""
    if any(x[0] not in ("ok", "fail") for x in (a, b, c)):
        return "skip"
    if a[0] != b[0]:
        return f"suffix:{a[0]}-vs-{b[0]}"
    if a[0] == "ok":
        if a[1] != shift_tree(b[1], k):
            return "suffix:tree"
    else:
        want = b[1] if b[1] == -1 else b[1] + k
        if a[1] != want:
            return "suffix:furthest_pos"
    if a[0] != c[0] or a[1] != c[1]:
        return "prefix-consulted"
    return None


def other_prefix(prefix: str) -> str:
    return "".join("q" if ch != "q" else "z" for ch in prefix)


def calls_for(rule, text, k):
    return [(rule, text, k), (rule, text[k:], 0), (rule, other_prefix(text[:k]) + text[k:], k)]


def add_sweeps(calls, meta):
    """After the main triples: for every (rule, text), the calls (rule, text, k) once more on the same text
    object with k running from len(text) down to 0 - the property quantifies over every k, whatever was parsed
    before with the same Parser (seeded change S66). Returns [(index into calls, index into meta)]."""
    sweeps = []
    for i in range(len(meta) - 1, -1, -1):
        s, text, k = meta[i]
        sweeps.append((len(calls), i))
        calls.append((s, text, k))
    return sweeps


def check_sweeps(ctx, case, mode, outs, meta, sweeps, suffix=""):
    for ci, i in sweeps:
        s, text, k = meta[i]
        a, b, c = outs[ci], outs[3 * i + 1], outs[3 * i + 2]
        ctx.evals += 1
        cls = compare(a, b, c, k)
        if cls in (None, "skip"):
            continue
        vc = fullcase.make_case(case, s, text, k, mode)
        vc["sweep"] = True
        ctx.violation(f"{mode}:{cls}:descending-sweep{suffix}", vc,
                      f"start_pos={k} after the calls at len(text)..{k + 1} on the same text object: {str(a)[:250]}; "
                      f"suffix at 0: {str(b)[:250]}")


def eval_case(modes, case):
    mode = case["mode"]
    worker = modes.raw if mode.startswith("raw") else modes.opt
    rules = refdiff.case_rules(case)
    k = case.get("start_pos", 0)
    if k > len(case["input"]):
        return None
    calls = calls_for(case["rule"], case["input"], k)
    if case.get("sweep"):
        # the same Parser / module and the same text object, start positions visited from len(text) down to k
        text = case["input"]
        calls = [(case["rule"], text, j) for j in range(len(text), k, -1)] + calls
    res = worker.call("pestverif.modes:eval_grammar",
                      {"text": gprint.grammar_text(rules), "calls": calls, "gen": mode.endswith("gen")})
    if res["load"][0] != "ok":
        return None
    outs = res["gen"] if mode.endswith("gen") else res["int"]
    if len(outs) < 3:
        return None
    outs = outs[-3:]
    cls = compare(outs[0], outs[1], outs[2], k)
    if cls in (None, "skip"):
        return None
    return (f"[{mode}] {cls}: start_pos={k}: {str(outs[0])[:250]}; suffix at 0: {str(outs[1])[:250]}; "
            f"other prefix: {str(outs[2])[:150]}")


def shards(tier: str):
    return [{"idx": i} for i in range(16)]


def fixed_shapes():
    """Deterministic position-sensitive shapes: skip-until forms (every ordered list of 1-2 stop strings from
    a, b, ab), regex-based terminals, trivia, EOI and the stack - [(rules, alphabet, maxlen)]."""
    import itertools

    out = []
    stops_pool = ["a", "b", "ab"]
    lists = [p for n in (1, 2) for p in itertools.permutations(stops_pool, n)]
    for stops in lists:
        inner = ("str", stops[0]) if len(stops) == 1 else ("grp", ("alt", tuple(("str", x) for x in stops)))
        body = ("grp", ("seq", (("not", inner), ("id", "ANY"))))
        out.append(([("r", "@", ("seq", (("star", body), ("opt", ("id", "ANY")))))], "abx", 4))
        out.append(([("r", "", ("seq", (("star", body), ("opt", ("id", "ANY")), ("opt", ("id", "ANY")))))], "abx", 4))
        out.append(([("r", "", ("alt", (("seq", (("plus", body), ("opt", ("id", "ANY")))), ("id", "ANY"))))], "abx", 4))
    ws = ("WHITESPACE", "_", ("str", " "))
    out += [
        ([("r", "", ("seq", (("star", ("str", "a")), ("opt", ("str", "b"))))), ws], "ab ", 4),
        ([("r", "", ("plus", ("grp", ("seq", (("str", "a"), ("str", "b")))))), ws], "ab ", 4),
        ([("r", "", ("seq", (("star", ("id", "i")), ("id", "EOI")))), ("i", "", ("alt", (("str", "a"), ("str", "b")))), ws], "ab ", 4),
        ([("r", "", ("seq", (("plus", ("id", "ASCII_DIGIT")), ("star", ("id", "LETTER")))))], "1aé", 4),
        ([("r", "", ("seq", (("ci", "ab"), ("opt", ("id", "ANY")))))], "abAB", 3),
        ([("r", "", ("seq", (("star", ("alt", (("str", "a"), ("id", "NEWLINE")))), ("id", "EOI"))))], "a\n\r", 4),
        ([("r", "", ("seq", (("push", ("alt", (("str", "a"), ("str", "b")))), ("star", ("str", "x")), ("id", "POP"))))], "abx", 4),
        ([("r", "", ("seq", (("alt", (("str", "a"), ("str", "ab"), ("range", "x", "z"))), ("not", ("str", "b")), ("opt", ("id", "ANY")))))], "abx", 3),
    ]
    return out


def run_fixed_shapes(ctx: Ctx, modes, idx):
    import itertools

    from pestverif import gprint

    shapes = fixed_shapes()
    for j, (rules, alphabet, maxlen) in enumerate(shapes):
        if j % 16 != idx:
            continue
        case = {"rules": rules, "text": gprint.grammar_text(rules)}
        texts = ["".join(p) for n in range(maxlen + 1) for p in itertools.product(alphabet, repeat=n)]
        calls, meta = [], []
        for text in texts:
            for k in range(len(text) + 1):
                meta.append(("r", text, k))
                calls.extend(calls_for("r", text, k))
        ctx.count("fixed_shape_grammars")
        sweeps = add_sweeps(calls, meta)
        for side, worker in (("raw", modes.raw), ("opt", modes.opt)):
            res = worker.call("pestverif.modes:eval_grammar", {"text": case["text"], "calls": calls, "gen": True})
            if res["load"][0] != "ok":
                ctx.count("frontend_rejected:" + side)
                continue
            for mode, outs in ((side + "-int", res["int"]), (side + "-gen", res["gen"])):
                if len(outs) != len(calls):
                    continue
                for i, (s, text, k) in enumerate(meta):
                    a, b, c = outs[3 * i : 3 * i + 3]
                    ctx.evals += 1
                    cls = compare(a, b, c, k)
                    if cls == "skip":
                        continue
                    if k >= 1 and fullcase.consumed_or_late_failure(a, k):
                        ctx.nt_extra += 1
                    if cls is not None:
                        ctx.violation(f"{mode}:{cls}:fixed-shape", fullcase.make_case(case, s, text, k, mode),
                                      f"start_pos={k}: {str(a)[:250]}; suffix at 0: {str(b)[:250]}; other prefix: {str(c)[:150]}")
                check_sweeps(ctx, case, mode, outs, meta, sweeps, ":fixed-shape")
    ctx.exhaustive.update({"fixed_shape_grammars": len(shapes), "fixed_shapes": "every text up to the length bound x every k"})


def run_shard(ctx: Ctx, spec):
    import hypothesis
    from hypothesis import HealthCheck, Phase, settings
    from hypothesis import strategies as st

    from pestverif.modes import Modes

    modes = Modes()
    try:

        @hypothesis.seed(ctx.sub_seed("random"))
        @settings(max_examples=SIZES[ctx.tier], deadline=None, database=None, phases=[Phase.generate],
                  suppress_health_check=list(HealthCheck))
        @hypothesis.given(st.randoms(use_true_random=False))
        def t(rng):
            case = fullcase.draw(rng, "soi-free", n_inputs=6, maxlen=12)
            calls, meta = [], []
            for inp, _label in case["inputs"]:
                # prepend a few characters so that interesting suffixes exist at k > 0
                pre = "".join(rng.choice("ab ~\n") for _ in range(rng.randint(0, 3)))
                text = (pre + inp)[:12]
                for s in case["main"][:2]:
                    for k in range(len(text) + 1):
                        meta.append((s, text, k))
                        calls.extend(calls_for(s, text, k))
            ctx.count("grammars")
            sweeps = add_sweeps(calls, meta)
            for side, worker in (("raw", modes.raw), ("opt", modes.opt)):
                res = worker.call("pestverif.modes:eval_grammar", {"text": case["text"], "calls": calls, "gen": True})
                if res["load"][0] != "ok":
                    ctx.count("frontend_rejected:" + side)
                    continue
                for mode, outs in ((side + "-int", res["int"]), (side + "-gen", res["gen"])):
                    if len(outs) != len(calls):
                        continue
                    for i, (s, text, k) in enumerate(meta):
                        a, b, c = outs[3 * i : 3 * i + 3]
                        ctx.evals += 1
                        cls = compare(a, b, c, k)
                        if cls == "skip":
                            ctx.count("skipped")
                            continue
                        if k >= 1 and fullcase.consumed_or_late_failure(a, k):
                            ctx.nontrivial([case["text"], mode, s, text, k])
                        if cls is not None:
                            ctx.violation(f"{mode}:{cls}", fullcase.make_case(case, s, text, k, mode),
                                          f"start_pos={k}: {str(a)[:250]}; suffix at 0: {str(b)[:250]}; other prefix: {str(c)[:150]}")
                    check_sweeps(ctx, case, mode, outs, meta, sweeps)
            if len(ctx.samples) < 3:
                ctx.sample({"grammar": case["text"], "texts": sorted({m[1] for m in meta})[:5], "k": "all 0..len"})

        t()
        run_fixed_shapes(ctx, modes, spec["idx"])
    finally:
        modes.close()


replay = refdiff.replay_with(eval_case)
shrink = refdiff.shrink_with(eval_case, shrink_start_pos=False)
