"""C15 - parsers are isolated, reusable and re-entrant (histories and owned thread schedules)."""

from __future__ import annotations

from pestverif.runner import Ctx

ID = "C15"
RULE = (
    "histories: Hypothesis draws a list of up to 30 operations create_parser(grammar from a pool of 7 fixed "
    "grammars using ASCII_*, NEWLINE, Unicode built-ins, WHITESPACE choices (SKIP fusion), silent rules and "
    "the stack, plus 2 generated ones; optimizer None / default / one of 5 custom pass lists), "
    "generate(parser), parse(parser or generated module, rule, succeeding or failing input, start_pos), all "
    "executed in ONE forked process; every observed result (tree, or furthest_pos with expected/unexpected "
    "label maps; generated source text) must equal the result of the same (grammar, optimizer, "
    "interpreter/generated, rule, input, k) computed in a fresh process that does nothing else (memoised). "
    "first-use order: per pool grammar and pool call i, a fresh process with two parsers parses call i first and "
    "then every pool call, each compared with the fresh-process result of that call alone. "
    "position sweeps: every pool text parsed on ONE reused parser / module at every start position, len..0 and "
    "0..len, always the same text object, each result compared with a fresh object and an equal distinct text. "
    "schedules: 2-4 threads x 2-3 parse() calls on shared parser objects and generated modules run under a "
    "cooperative scheduler driven by sys.monitoring LINE events in pest code (exactly one thread runs at a "
    "time, the seeded PRNG decides at every line whether to hand over), so the interleaving is a pure "
    "function of the seed; each thread's results must equal the sequential results; plus focused contention "
    "schedules (one shared object per pool grammar x optimizer off/on x interpreter/generated, three threads "
    "parsing different inputs on it, hand-over probability 0.15-0.6) and preemption-bounded EXHAUSTIVE "
    "schedules (one shared object, every ordered pair of inputs of a group, the first thread pre-empted at every "
    "single line of its parse by a whole parse of the second); a free-running stress "
    "run (8 threads, switch interval 1e-6) is a supplement whose failures only count if they reproduce "
    "three times. Non-trivial: a history in which a parser is observed after another parser with a "
    "different optimizer setting or grammar was created or used; a schedule with >= 1 pre-emption inside "
    "parse(); distinct by hash of the history / (tasks, seed)."
)
ASSUMPTIONS = [
    "the owned scheduler explores line-granular interleavings of pure-Python code only",
    "isolated reference results are computed in freshly forked children of a process that never built a "
    "Parser",
]
SIZES = {"quick": {"hist": 25, "sched": 20, "focus": 9, "pre_inputs": 3}, "thorough": {"hist": 600, "sched": 500, "focus": 60, "pre_inputs": 6}}

POOL = [
    ('WHITESPACE = _{ " " }\na = { b ~ ("x" | c)* ~ !"q" }\nb = @{ ASCII_DIGIT+ }\nc = ${ "y" ~ b? }\n',
     [("a", "12 x y3 x"), ("a", "1 q"), ("a", "7 y y1"), ("a", "x"), ("a", ""), ("b", "4z"), ("c", "y")]),
    ("h = { ASCII_HEX_DIGIT+ ~ NEWLINE ~ LETTER* ~ UPPERCASE_LETTER? }\n",
     [("h", "ff\nab"), ("h", "zz"), ("h", "ff"), ("h", "1\r\nΣ"), ("h", "a\rbΣ"), ("h", "")]),
    ('WHITESPACE = _{ " " | "\\t" | NEWLINE }\ns = { SOI ~ item ~ ("," ~ item)* ~ EOI }\nitem = { ASCII_ALPHA+ | ASCII_NONZERO_DIGIT ~ ASCII_DIGIT* }\n',
     [("s", "ab , 12,\n c"), ("s", "ab ,, c"), ("s", "0"), ("s", " a"), ("item", "12a"), ("s", "a,b,")]),
    ('l = { PUSH(d) ~ m* ~ POP ~ EOI }\nd = _{ "<" | "[" }\nm = _{ ASCII_ALPHANUMERIC | " " }\n',
     [("l", "<ab<"), ("l", "[x y["), ("l", "<a"), ("l", "<a["), ("l", "")]),
    ('COMMENT = _{ "/*" ~ (!"*/" ~ ANY)* ~ "*/" }\nk = { "a" ~ "b" ~ ASCII_OCT_DIGIT ~ (ASCII_ALPHA_UPPER | ASCII_BIN_DIGIT)* }\n',
     [("k", "a/* c */b7"), ("k", "ab8"), ("k", "a/* b7"), ("k", "ab7AZ01"), ("k", "ab")]),
    # skip-until shapes (rewritten by the skip pass into a SkipUntil node shared by all parse() calls of the parser)
    ('s = @{ "\\"" ~ (!("\\"" | "\\\\") ~ ANY)* ~ "\\"" }\nline = { (!NEWLINE ~ ANY)* ~ NEWLINE? ~ ASCII_DIGIT* }\nu = @{ (!("ab" | "b") ~ ANY)* ~ ANY? }\n',
     [("s", '"ab"'), ("s", '"abc'), ("s", '"a\\b"'), ("s", '""'), ("line", "abc\n12"), ("line", "abcdef"), ("line", "a\r\n1"),
      ("u", "xxab"), ("u", "xxxx"), ("u", "xb"), ("u", "")]),
    # a plain choice with exactly the alternatives of the WHITESPACE body (anything keyed by "the same set of
    # choices" is then shared between the squashed choice and the fused, repeated SKIP rule; seeded change S71)
    ('WHITESPACE = _{ " " | "\t" }\nsep = { " " | "\t" }\nw = { "a" ~ "b" ~ "c" }\nv = ${ "a" ~ sep ~ "b" }\n',
     [("w", "a  b c"), ("sep", " "), ("v", "a b"), ("sep", "  x"), ("w", "a\t \tb  c"), ("v", "a  b"), ("w", "abc"), ("sep", "")]),
]
CONFIGS = ["raw", "opt", [0], [3], [2, 3], [1, 2, 3, 4], [4, 3, 2, 1, 0]]


# ----------------------------------------------------------------------------- child side


def _make_optimizer(cfg):
    import pest

    if cfg == "raw":
        return None
    if cfg == "opt":
        return pest.DEFAULT_OPTIMIZER
    return pest.Optimizer([pest.DEFAULT_OPTIMIZER_PASSES[i] for i in cfg])


def _observe(target, rule, text, k):
    import pest

    from pestverif import budget, modes

    try:
        (pairs, _) = budget.run_limited(lambda: target.parse(rule, text, start_pos=k), 3_000_000)
    except pest.PestParsingError as err:
        st = err.state
        return ("fail", st.furthest_pos, sorted((a, tuple(b)) for a, b in st.furthest_expected.items()),
                sorted((a, tuple(b)) for a, b in st.furthest_unexpected.items()))
    except budget.BudgetExceeded:
        return ("budget",)
    except RecursionError:
        return ("recursion",)
    except Exception as err:  # noqa: BLE001
        return ("exc", type(err).__name__, modes._where(err), str(err)[:120])
    return ("ok", modes.norm_tree(pairs))


def _load_module(src):
    import types

    mod = types.ModuleType("pestverif_generated")
    exec(compile(src, "<generated>", "exec"), mod.__dict__)  # noqa: S102
    return mod


def run_history(req):
    """Child: execute a whole history in this one process; return the observation of every operation."""
    import pest

    texts = req["texts"]
    parsers, modules = {}, {}
    obs = []
    for op in req["ops"]:
        kind = op[0]
        try:
            if kind == "create":
                _, slot, gi, cfg = op
                parsers[slot] = pest.Parser.from_grammar(texts[gi], optimizer=_make_optimizer(cfg))
                obs.append(("created",))
            elif kind == "generate":
                _, slot = op
                src = parsers[slot].generate()
                modules[slot] = _load_module(src)
                obs.append(("source", src))
            elif kind == "parse":
                _, slot, which, rule, text, k = op
                target = parsers[slot] if which == "int" else modules[slot]
                obs.append(_observe(target, rule, text, k))
        except Exception as err:  # noqa: BLE001
            obs.append(("op-exc", type(err).__name__, str(err)[:120]))
    return obs


def run_isolated(req):
    """Child (fresh): one parser [+ module], one observation."""
    import pest

    parser = pest.Parser.from_grammar(req["text"], optimizer=_make_optimizer(req["cfg"]))
    if req["what"] == "source":
        return ("source", parser.generate())
    target = parser
    if req["which"] == "gen":
        target = _load_module(parser.generate())
    return _observe(target, req["rule"], req["input"], req["k"])


def run_sweep(req):
    """Child (fresh): ONE reused parser / module, every task text parsed at every start position - from
    len(text) down to 0 and up again - always passing the same text object; each observation is compared with
    the same call on a fresh Parser (or freshly loaded module) and an equal but distinct text object."""
    import pest

    gi, cfg, which = req["object"]
    gtext = req["texts"][gi]

    def make():
        parser = pest.Parser.from_grammar(gtext, optimizer=_make_optimizer(cfg))
        return _load_module(parser.generate()) if which == "gen" else parser

    target = make()
    bad, n = [], 0
    for rule, inp in req["tasks"]:
        ks = list(range(len(inp), -1, -1)) + list(range(len(inp) + 1))
        for k in ks:
            got = _observe(target, rule, inp, k)
            want = _observe(make(), rule, "".join(list(inp)), k)
            n += 1
            if got != want and "budget" not in (got[0], want[0]) and "recursion" not in (got[0], want[0]):
                bad.append((rule, inp, k, got, want))
    return {"bad": bad, "n": n}


# --- owned schedules


def run_schedule(req):
    """Child: run tasks on threads under the cooperative LINE-event scheduler; return results + switches."""
    import random
    import sys
    import threading

    import pest

    texts = req["texts"]
    objs = []
    for gi, cfg, which in req["objects"]:
        p = pest.Parser.from_grammar(texts[gi], optimizer=_make_optimizer(cfg))
        objs.append(p if which == "int" else _load_module(p.generate()))
    tasks = req["tasks"]  # per thread: [(obj index, rule, text, k)]

    # sequential reference first (same process, same objects)
    seq = [[_observe_plain(objs[o], r, t, k) for o, r, t, k in ts] for ts in tasks]
    if req.get("free"):
        return {"seq": seq, "runs": [_free_run(objs, tasks) for _ in range(3)]}

    mon = sys.monitoring
    tool = 4
    if mon.get_tool(tool) is None:
        mon.use_tool_id(tool, "pestverif-sched")
    n = len(tasks)
    rng = random.Random(req["seed"])
    sems = [threading.Semaphore(0) for _ in range(n)]
    alive = [True] * n
    state = {"cur": 0, "switches": 0, "inside": 0}
    tids = {}
    p_switch = req["p"]

    def on_line(code, _line):
        fn = code.co_filename
        if "/pest/" not in fn and fn != "<generated>":
            return mon.DISABLE
        i = tids.get(threading.get_ident())
        if i is None or i != state["cur"]:
            return None
        if rng.random() < p_switch:
            others = [j for j, a in enumerate(alive) if a and j != i]
            if others:
                j = rng.choice(others)
                state["switches"] += 1
                state["cur"] = j
                sems[j].release()
                sems[i].acquire()
        return None

    results = [[] for _ in range(n)]

    def worker(i):
        tids[threading.get_ident()] = i
        sems[i].acquire()
        try:
            for o, r, t, k in tasks[i]:
                results[i].append(_observe_plain(objs[o], r, t, k))
        finally:
            alive[i] = False
            others = [j for j, a in enumerate(alive) if a]
            if others:
                j = rng.choice(others)
                state["cur"] = j
                sems[j].release()

    mon.register_callback(tool, mon.events.LINE, on_line)
    threads = [threading.Thread(target=worker, args=(i,)) for i in range(n)]
    for t in threads:
        t.start()
    mon.restart_events()
    mon.set_events(tool, mon.events.LINE)
    state["cur"] = 0
    sems[0].release()
    for t in threads:
        t.join(60)
    mon.set_events(tool, 0)
    hung = any(t.is_alive() for t in threads)
    return {"seq": seq, "results": results, "switches": state["switches"], "hung": hung}


def run_preempt(req):
    """Child: preemption-bounded exhaustive schedules on ONE shared object. For every ordered pair of tasks
    (x, y), x != y, and every LINE event i of x's parse inside pest / generated code: thread X runs until its i-th
    line, then thread Y runs its whole parse, then X finishes. Both results must equal the sequential ones.
    Returns {"schedules": n, "lines": [...], "bad": [(x, y, i, got_x, got_y)]} (at most 5 mismatches)."""
    import sys
    import threading

    import pest

    gi, cfg, which = req["object"]
    p = pest.Parser.from_grammar(req["texts"][gi], optimizer=_make_optimizer(cfg))
    obj = p if which == "int" else _load_module(p.generate())
    tasks = req["tasks"]
    seq = [_observe_plain(obj, r, t, k) for r, t, k in tasks]

    mon = sys.monitoring
    tool = 4
    if mon.get_tool(tool) is None:
        mon.use_tool_id(tool, "pestverif-sched")
    st = {"tid0": None, "count": 0, "at": -1, "switched": False, "sem0": None, "sem1": None}

    def on_line(code, _line):
        fn = code.co_filename
        if "/pest/" not in fn and fn != "<generated>":
            return mon.DISABLE
        if threading.get_ident() != st["tid0"] or st["switched"]:
            return None
        st["count"] += 1
        if st["count"] == st["at"]:
            st["switched"] = True
            st["sem1"].release()
            st["sem0"].acquire()
        return None

    mon.register_callback(tool, mon.events.LINE, on_line)
    mon.restart_events()
    mon.set_events(tool, mon.events.LINE)

    def run_pair(x, y, at):
        st.update(count=0, at=at, switched=False, sem0=threading.Semaphore(0), sem1=threading.Semaphore(0))
        out = [None, None]

        def t0():
            st["tid0"] = threading.get_ident()
            try:
                out[0] = _observe_plain(obj, *tasks[x])
            finally:
                st["tid0"] = None
                if not st["switched"]:
                    st["switched"] = True
                    st["sem1"].release()

        def t1():
            st["sem1"].acquire()
            try:
                out[1] = _observe_plain(obj, *tasks[y])
            finally:
                st["sem0"].release()

        a, b = threading.Thread(target=t0), threading.Thread(target=t1)
        b.start()
        a.start()
        a.join(30)
        b.join(30)
        return out, st["count"]

    bad, lines, n = [], [], 0
    try:
        for x in range(len(tasks)):
            _, total = run_pair(x, x, -1)  # dry run: how many line events does x's parse have?
            lines.append(total)
            for y in range(len(tasks)):
                if x == y:
                    continue
                for at in range(1, total + 1):
                    out, _ = run_pair(x, y, at)
                    n += 1
                    if (out[0], out[1]) != (seq[x], seq[y]) and len(bad) < 5:
                        bad.append((x, y, at, out[0], out[1], seq[x], seq[y]))
    finally:
        mon.set_events(tool, 0)
    return {"schedules": n, "lines": lines, "bad": bad}


def _observe_plain(target, rule, text, k):
    import pest

    try:
        pairs = target.parse(rule, text, start_pos=k)
    except pest.PestParsingError as err:
        st = err.state
        return ("fail", st.furthest_pos, sorted((a, tuple(b)) for a, b in st.furthest_expected.items()),
                sorted((a, tuple(b)) for a, b in st.furthest_unexpected.items()))
    except Exception as err:  # noqa: BLE001
        return ("exc", type(err).__name__, str(err)[:120])
    from pestverif import modes

    return ("ok", modes.norm_tree(pairs))


def _free_run(objs, tasks):
    import sys
    import threading

    old = sys.getswitchinterval()
    sys.setswitchinterval(1e-6)
    results = [[] for _ in tasks]
    barrier = threading.Barrier(len(tasks))

    def worker(i):
        barrier.wait()
        for _rep in range(3):
            for o, r, t, k in tasks[i]:
                results[i].append(_observe_plain(objs[o], r, t, k))

    threads = [threading.Thread(target=worker, args=(i,)) for i in range(len(tasks))]
    for t in threads:
        t.start()
    for t in threads:
        t.join(60)
    sys.setswitchinterval(old)
    return results


# ----------------------------------------------------------------------------- driver side


def history_strategy():
    from hypothesis import strategies as st

    return st.tuples(st.randoms(use_true_random=False), st.integers(8, 30))


def build_history(rng, nops):
    """Returns (texts, calls per grammar, ops)."""
    from pestverif import fullcase

    texts = [t for t, _ in POOL]
    calls = [list(c) for _, c in POOL]
    for _ in range(2):
        case = fullcase.draw(rng, "full", n_inputs=5, max_rules=3)
        texts.append(case["text"])
        calls.append([(r, inp) for inp, _ in case["inputs"] for r in case["main"][:2]])
    ops = []
    slots = []  # (gi, cfg, has_module)
    for _ in range(nops):
        x = rng.random()
        if not slots or x < 0.3:
            gi = rng.randrange(len(texts))
            cfg = rng.choice(CONFIGS)
            slots.append([gi, cfg, False])
            ops.append(("create", len(slots) - 1, gi, cfg))
        elif x < 0.45:
            s = rng.randrange(len(slots))
            slots[s][2] = True
            ops.append(("generate", s))
        else:
            s = rng.randrange(len(slots))
            gi = slots[s][0]
            if not calls[gi]:
                continue
            rule, inp = rng.choice(calls[gi])
            which = "gen" if slots[s][2] and rng.random() < 0.5 else "int"
            k = 0 if rng.random() < 0.8 or not inp else rng.randint(0, len(inp))
            ops.append(("parse", s, which, rule, inp, k))
    return texts, ops, slots


def isolated(memo, key, req):
    from pestverif.modes import one_shot

    if key not in memo:
        memo[key] = one_shot("mixed", "pestverif.props.c15:run_isolated", req)
    return memo[key]


def check_history(texts, ops, memo):
    """Returns (violations [(bucket, op index, detail)], nontrivial, n_compared)."""
    from pestverif.modes import one_shot
    from pestverif.runner import h64

    obs = one_shot("mixed", "pestverif.props.c15:run_history", {"texts": texts, "ops": ops})
    slots = {}
    out = []
    n = 0
    configs_seen = set()
    nontrivial = False
    for i, (op, ob) in enumerate(zip(ops, obs)):
        if op[0] == "create":
            slots[op[1]] = (op[2], op[3])
            continue
        gi, cfg = slots[op[1]]
        ckey = h64(cfg)
        if op[0] == "generate":
            want = isolated(memo, ("src", texts[gi], ckey), {"text": texts[gi], "cfg": cfg, "what": "source"})
            n += 1
            if ob != want:
                out.append((f"generate:{'raw' if cfg == 'raw' else 'optimized'}", i,
                            f"generate() after this history differs from generate() in a fresh process (op {i})"))
            continue
        _, s, which, rule, inp, k = op
        want = isolated(memo, ("p", texts[gi], ckey, which, rule, inp, k),
                        {"text": texts[gi], "cfg": cfg, "what": "parse", "which": which, "rule": rule, "input": inp, "k": k})
        n += 1
        others = {(g, h64(c)) for g, c in slots.values()} - {(gi, ckey)}
        if others:
            nontrivial = True
        if ob[0] in ("budget", "recursion") or want[0] in ("budget", "recursion"):
            continue
        if ob != want:
            what = "tree" if ob[0] == want[0] == "ok" else "failure-report" if ob[0] == want[0] == "fail" else "outcome"
            out.append((f"history:{what}:{'raw' if cfg == 'raw' else 'optimized'}-{which}", i,
                        f"op {i} {op}: in the history {str(ob)[:250]}; in isolation {str(want)[:250]}"))
    return out, nontrivial, n


def shrink_history(texts, ops, bucket, memo):
    """Greedy removal of operations while a violation of the same bucket remains."""

    def fails(cand):
        # keep only well-formed histories: every slot used must have been created (and generated for gen)
        created, generated = set(), set()
        for op in cand:
            if op[0] == "create":
                created.add(op[1])
            elif op[0] == "generate":
                if op[1] not in created:
                    return False
                generated.add(op[1])
            elif op[1] not in created or (op[2] == "gen" and op[1] not in generated):
                return False
        v, _, _ = check_history(texts, cand, memo)
        return any(b == bucket for b, _, _ in v)

    from pestverif.shrink import ddmin_list

    return ddmin_list(list(ops), fails, 60)


def shards(tier: str):
    return [{"idx": i} for i in range(16)]


def run_shard(ctx: Ctx, spec):
    import random

    import hypothesis
    from hypothesis import HealthCheck, Phase, settings

    from pestverif.modes import one_shot

    size = SIZES[ctx.tier]
    memo: dict = {}

    @hypothesis.seed(ctx.sub_seed("hist"))
    @settings(max_examples=size["hist"], deadline=None, database=None, phases=[Phase.generate],
              suppress_health_check=list(HealthCheck))
    @hypothesis.given(history_strategy())
    def th(case):
        rng, nops = case
        texts, ops, _slots = build_history(rng, nops)
        v, nt, n = check_history(texts, ops, memo)
        ctx.evals += n
        ctx.count("histories")
        ctx.count("history_ops", len(ops))
        if nt:
            ctx.nontrivial(["hist", texts[5:], ops])
        for bucket, i, detail in v:
            ctx.violation(bucket, {"kind": "history", "texts": texts, "ops": [list(o) for o in ops], "bucket": bucket}, detail)
        if len(ctx.samples) < 2:
            ctx.sample({"kind": "history", "ops": [list(o) for o in ops][:12], "n_ops": len(ops)})

    th()

    # owned schedules
    rng = random.Random(ctx.sub_seed("sched"))
    texts = [t for t, _ in POOL]
    for si in range(size["sched"]):
        objects = []
        for _ in range(rng.randint(1, 3)):
            gi = rng.randrange(len(POOL))
            objects.append((gi, rng.choice(["raw", "opt"]), rng.choice(["int", "gen"])))
        nthreads = rng.randint(2, 4)
        tasks = []
        for _ in range(nthreads):
            ts = []
            for _ in range(rng.randint(2, 3)):
                o = rng.randrange(len(objects))
                rule, inp = rng.choice(POOL[objects[o][0]][1])
                ts.append((o, rule, inp, 0))
            tasks.append(ts)
        seed = rng.randrange(2**31)
        p = rng.choice([0.02, 0.1, 0.3, 0.6])
        req = {"texts": texts, "objects": objects, "tasks": tasks, "seed": seed, "p": p}
        res = one_shot("mixed", "pestverif.props.c15:run_schedule", req, timeout=180)
        ctx.evals += sum(len(t) for t in tasks)
        ctx.count("schedules")
        ctx.count("preemptions", res["switches"])
        if res["switches"] >= 1:
            ctx.nontrivial(["sched", objects, tasks, seed, p])
        if res["hung"]:
            ctx.violation("schedule:hung", {"kind": "schedule", **req}, "a thread did not finish under the owned scheduler")
        elif res["results"] != res["seq"]:
            ctx.violation("schedule:result", {"kind": "schedule", **req},
                          f"results under the schedule differ from the sequential results: {str(res['results'])[:300]} vs {str(res['seq'])[:300]}")
        if len(ctx.samples) < 4 and res["switches"]:
            ctx.sample({"kind": "schedule", "objects": objects, "tasks": tasks, "seed": seed, "p": p, "preemptions": res["switches"]})
    # focused contention: ONE shared object (each pool grammar x optimizer off/on x interpreter/generated), three
    # threads parsing DIFFERENT inputs on it at the same time, frequent hand-overs
    focused = []
    for gi in range(len(POOL)):
        for cfg in ("raw", "opt"):
            for which in ("int", "gen"):
                for rep in range(size["focus"]):
                    focused.append((gi, cfg, which, rep))
    for j, (gi, cfg, which, rep) in enumerate(focused):
        if j % 16 != spec["idx"]:
            continue
        inputs = POOL[gi][1]
        tasks = [[(0, *inputs[(5 * rep + 3 * t + 7 * q) % len(inputs)], 0) for q in range(2)] for t in range(3)]
        req = {"texts": texts, "objects": [(gi, cfg, which)], "tasks": tasks, "seed": ctx.sub_seed("focus", j) % 2**31,
               "p": (0.3, 0.6, 0.15)[rep % 3]}
        res = one_shot("mixed", "pestverif.props.c15:run_schedule", req, timeout=180)
        ctx.evals += sum(len(t) for t in tasks)
        ctx.count("focused_schedules")
        ctx.count("preemptions", res["switches"])
        if res["switches"] >= 1:
            ctx.nontrivial(["focus", gi, cfg, which, rep])
        if res["hung"]:
            ctx.violation("schedule:hung", {"kind": "schedule", **req}, "a thread did not finish under the owned scheduler")
        elif res["results"] != res["seq"]:
            ctx.violation("schedule:result:shared-object", {"kind": "schedule", **req},
                          f"results under the schedule differ from the sequential results: {str(res['results'])[:300]} vs {str(res['seq'])[:300]}")
    # first-use order: for every pool grammar and every pool call i, a fresh process creates two parsers, parses
    # call i on the first and then EVERY call alternately on the second and the first; each result must equal
    # the fresh-process result of that call alone (whatever is compiled or cached lazily at first use must not
    # depend on which rule or input came first; seeded change S71)
    orders = [(gi, cfg, i) for gi in range(len(POOL)) for cfg in ("opt", "raw") for i in range(len(POOL[gi][1]))]
    for j, (gi, cfg, i) in enumerate(orders):
        if j % 16 != spec["idx"] or (ctx.tier == "quick" and cfg == "raw" and i % 3):
            continue
        pc = POOL[gi][1]
        ops = [("create", 0, gi, cfg), ("create", 1, gi, cfg), ("parse", 0, "int", pc[i][0], pc[i][1], 0)]
        ops += [("parse", (q + 1) % 2, "int", r, inp, 0) for q, (r, inp) in enumerate(pc)]
        v, _nt, n = check_history(texts, ops, memo)
        ctx.evals += n
        ctx.nt_extra += n
        ctx.count("first_use_order_histories")
        for bucket, _i, detail in v[:1]:
            ctx.violation("order:" + bucket, {"kind": "history", "texts": texts, "ops": [list(o) for o in ops], "bucket": bucket}, detail)
    # position sweeps on one reused object and one text object (seeded change S66)
    sweeps = [(gi, cfg, which) for gi in range(len(POOL)) for cfg in ("opt", "raw") for which in ("int", "gen")]
    for j, obj in enumerate(sweeps):
        if j % 16 != spec["idx"] or (ctx.tier == "quick" and obj[1] == "raw" and obj[2] == "gen"):
            continue
        req = {"texts": texts, "object": obj, "tasks": [tuple(t) for t in POOL[obj[0]][1]]}
        res = one_shot("mixed", "pestverif.props.c15:run_sweep", req, timeout=600)
        ctx.evals += res["n"]
        ctx.nt_extra += res["n"]
        ctx.count("position_sweep_calls", res["n"])
        for rule, inp, k, got, want in res["bad"][:1]:
            ctx.violation(f"sweep:result:{obj[1]}-{obj[2]}", {"kind": "sweep", **req, "at": [rule, inp, k]},
                          f"parse({rule!r}, {inp!r}, start_pos={k}) on a reused {'module' if obj[2] == 'gen' else 'Parser'} after "
                          f"calls at other start positions of the same text object: {str(got)[:250]}; on a fresh one: {str(want)[:250]}")
    # preemption-bounded exhaustive schedules (one pre-emption at EVERY line of the first thread's parse)
    pre = []
    for gi in range(len(POOL)):
        for cfg, which in (("opt", "int"), ("raw", "int"), ("opt", "gen")):
            if ctx.tier == "quick" and (cfg, which) != ("opt", "int") and not (which == "gen" and gi >= len(POOL) - 2):
                continue  # quick: the optimized interpreter everywhere, optimized generated code for two grammars
            n_in = len(POOL[gi][1])
            groups = [list(range(a, min(a + size["pre_inputs"], n_in))) for a in range(0, n_in, size["pre_inputs"])]
            for grp in (groups if ctx.tier == "thorough" else groups[:1]):
                if len(grp) >= 2:
                    pre.append((gi, cfg, which, grp))
    for j, (gi, cfg, which, grp) in enumerate(dict.fromkeys((a, b, c, tuple(d)) for a, b, c, d in pre)):
        if j % 16 != spec["idx"]:
            continue
        tasks = [(*POOL[gi][1][q], 0) for q in grp]
        req = {"texts": texts, "object": (gi, cfg, which), "tasks": tasks}
        res = one_shot("mixed", "pestverif.props.c15:run_preempt", req, timeout=600)
        ctx.evals += 2 * res["schedules"]
        ctx.count("preempt_schedules", res["schedules"])
        ctx.nt_extra += res["schedules"]
        for x, y, at, g0, g1, w0, w1 in res["bad"][:1]:
            ctx.violation("preempt:result", {"kind": "preempt", **req, "pair": [x, y], "at": at},
                          f"thread X (task {x}) pre-empted at its line {at} by a whole parse of task {y}: results "
                          f"{str((g0, g1))[:300]} differ from the sequential results {str((w0, w1))[:300]}")
    ctx.exhaustive.update({"preemption_bounded": "every single pre-emption point of every ordered pair of tasks in each group"})
    # free-running supplement (one per shard)
    objects = [(0, "raw", "int"), (0, "opt", "gen"), (2, "opt", "int")]
    tasks = [[(i % 3, *POOL[objects[i % 3][0]][1][j % 4], 0) for j in range(3)] for i in range(8)]
    res = one_shot("mixed", "pestverif.props.c15:run_schedule", {"texts": texts, "objects": objects, "tasks": tasks, "free": True}, timeout=240)
    want = [r * 3 for r in res["seq"]]
    ctx.evals += 3 * sum(len(t) for t in tasks)
    if all(run != want for run in res["runs"]):
        ctx.violation("free-running:result", {"kind": "free", "objects": objects, "tasks": tasks},
                      "8 free-running threads disagreed with the sequential results in three consecutive runs")
    ctx.count("free_running_runs", 3)


def replay(case):
    from pestverif.modes import one_shot

    if case["kind"] == "history":
        ops = [tuple(tuple(x) if isinstance(x, list) and i != 3 else x for i, x in enumerate(o)) for o in case["ops"]]
        ops = [tuple(o) for o in case["ops"]]
        v, _, _ = check_history(case["texts"], ops, {})
        for b, _i, d in v:
            if b == case.get("bucket", b):
                return f"{b}: {d}"
        return f"{v[0][0]}: {v[0][2]}" if v else None
    if case["kind"] == "schedule":
        req = {k: case[k] for k in ("texts", "objects", "tasks", "seed", "p")}
        req["objects"] = [tuple(o) for o in req["objects"]]
        req["tasks"] = [[tuple(t) for t in ts] for ts in req["tasks"]]
        res = one_shot("mixed", "pestverif.props.c15:run_schedule", req, timeout=180)
        if res["hung"]:
            return "schedule:hung: a thread did not finish"
        if res["results"] != res["seq"]:
            return f"schedule:result: {str(res['results'])[:300]} vs sequential {str(res['seq'])[:300]}"
        return None
    if case["kind"] == "sweep":
        req = {"texts": case["texts"], "object": tuple(case["object"]), "tasks": [tuple(t) for t in case["tasks"]]}
        res = one_shot("mixed", "pestverif.props.c15:run_sweep", req, timeout=600)
        if res["bad"]:
            rule, inp, k, got, want = res["bad"][0]
            return f"sweep:result: parse({rule!r}, {inp!r}, start_pos={k}) reused: {str(got)[:250]}; fresh: {str(want)[:250]}"
        return None
    if case["kind"] == "preempt":
        req = {"texts": case["texts"], "object": tuple(case["object"]), "tasks": [tuple(t) for t in case["tasks"]]}
        res = one_shot("mixed", "pestverif.props.c15:run_preempt", req, timeout=600)
        if res["bad"]:
            x, y, at, g0, g1, w0, w1 = res["bad"][0]
            return (f"preempt:result: task {x} pre-empted at line {at} by a whole parse of task {y}: "
                    f"{str((g0, g1))[:300]} vs sequential {str((w0, w1))[:300]}")
        return None
    return None


def shrink(case):
    if case["kind"] != "history":
        return case
    ops = [tuple(o) for o in case["ops"]]
    small = shrink_history(case["texts"], ops, case["bucket"], {})
    return {**case, "ops": [list(o) for o in small]}
