"""C15 - parsers are isolated, reusable and re-entrant (histories and owned thread schedules)."""

from __future__ import annotations

from pestverif.runner import Ctx

ID = "C15"
RULE = (
    "histories: Hypothesis draws a list of up to 30 operations create_parser(grammar from a pool of 5 fixed "
    "grammars using ASCII_*, NEWLINE, Unicode built-ins, WHITESPACE choices (SKIP fusion), silent rules and "
    "the stack, plus 2 generated ones; optimizer None / default / one of 5 custom pass lists), "
    "generate(parser), parse(parser or generated module, rule, succeeding or failing input, start_pos), all "
    "executed in ONE forked process; every observed result (tree, or furthest_pos with expected/unexpected "
    "label maps; generated source text) must equal the result of the same (grammar, optimizer, "
    "interpreter/generated, rule, input, k) computed in a fresh process that does nothing else (memoised). "
    "schedules: 2-4 threads x 2-3 parse() calls on shared parser objects and generated modules run under a "
    "cooperative scheduler driven by sys.monitoring LINE events in pest code (exactly one thread runs at a "
    "time, the seeded PRNG decides at every line whether to hand over), so the interleaving is a pure "
    "function of the seed; each thread's results must equal the sequential results; a free-running stress "
    "run (8 threads, switch interval 1e-6) is a supplement whose failures only count if they reproduce "
    "three times. Non-trivial: a history in which a parser is observed after another parser with a "
    "different optimizer setting or grammar was created or used; a schedule with >= 1 pre-emption inside "
    "parse(); distinct by hash of the history / (tasks, seed)."
)
ASSUMPTIONS = [
    "the owned scheduler explores line-granular interleavings of pure-Python code only",
    "isolated reference results are computed in freshly forked children of a process that never built a "
    "Parser",
]
SIZES = {"quick": {"hist": 25, "sched": 20}, "thorough": {"hist": 600, "sched": 500}}

POOL = [
    ('WHITESPACE = _{ " " }\na = { b ~ ("x" | c)* ~ !"q" }\nb = @{ ASCII_DIGIT+ }\nc = ${ "y" ~ b? }\n',
     [("a", "12 x y3 x"), ("a", "1 q"), ("a", "7 y y1"), ("a", "x"), ("a", ""), ("b", "4z"), ("c", "y")]),
    ("h = { ASCII_HEX_DIGIT+ ~ NEWLINE ~ LETTER* ~ UPPERCASE_LETTER? }\n",
     [("h", "ff\nab"), ("h", "zz"), ("h", "ff"), ("h", "1\r\nΣ"), ("h", "a\rbΣ"), ("h", "")]),
    ('WHITESPACE = _{ " " | "\\t" | NEWLINE }\ns = { SOI ~ item ~ ("," ~ item)* ~ EOI }\nitem = { ASCII_ALPHA+ | ASCII_NONZERO_DIGIT ~ ASCII_DIGIT* }\n',
     [("s", "ab , 12,\n c"), ("s", "ab ,, c"), ("s", "0"), ("s", " a"), ("item", "12a"), ("s", "a,b,")]),
    ('l = { PUSH(d) ~ m* ~ POP ~ EOI }\nd = _{ "<" | "[" }\nm = _{ ASCII_ALPHANUMERIC | " " }\n',
     [("l", "<ab<"), ("l", "[x y["), ("l", "<a"), ("l", "<a["), ("l", "")]),
    ('COMMENT = _{ "/*" ~ (!"*/" ~ ANY)* ~ "*/" }\nk = { "a" ~ "b" ~ ASCII_OCT_DIGIT ~ (ASCII_ALPHA_UPPER | ASCII_BIN_DIGIT)* }\n',
     [("k", "a/* c */b7"), ("k", "ab8"), ("k", "a/* b7"), ("k", "ab7AZ01"), ("k", "ab")]),
]
CONFIGS = ["raw", "opt", [0], [3], [2, 3], [1, 2, 3, 4], [4, 3, 2, 1, 0]]


# ----------------------------------------------------------------------------- child side


def _make_optimizer(cfg):
    import pest

    if cfg == "raw":
        return None
    if cfg == "opt":
        return pest.DEFAULT_OPTIMIZER
    return pest.Optimizer([pest.DEFAULT_OPTIMIZER_PASSES[i] for i in cfg])


def _observe(target, rule, text, k):
    import pest

    from pestverif import budget, modes

    try:
        (pairs, _) = budget.run_limited(lambda: target.parse(rule, text, start_pos=k), 3_000_000)
    except pest.PestParsingError as err:
        st = err.state
        return ("fail", st.furthest_pos, sorted((a, tuple(b)) for a, b in st.furthest_expected.items()),
                sorted((a, tuple(b)) for a, b in st.furthest_unexpected.items()))
    except budget.BudgetExceeded:
        return ("budget",)
    except RecursionError:
        return ("recursion",)
    except Exception as err:  # noqa: BLE001
        return ("exc", type(err).__name__, modes._where(err), str(err)[:120])
    return ("ok", modes.norm_tree(pairs))


def _load_module(src):
    import types

    mod = types.ModuleType("pestverif_generated")
    exec(compile(src, "<generated>", "exec"), mod.__dict__)  # noqa: S102
    return mod


def run_history(req):
    """Child: execute a whole history in this one process; return the observation of every operation."""
    import pest

    texts = req["texts"]
    parsers, modules = {}, {}
    obs = []
    for op in req["ops"]:
        kind = op[0]
        try:
            if kind == "create":
                _, slot, gi, cfg = op
                parsers[slot] = pest.Parser.from_grammar(texts[gi], optimizer=_make_optimizer(cfg))
                obs.append(("created",))
            elif kind == "generate":
                _, slot = op
                src = parsers[slot].generate()
                modules[slot] = _load_module(src)
                obs.append(("source", src))
            elif kind == "parse":
                _, slot, which, rule, text, k = op
                target = parsers[slot] if which == "int" else modules[slot]
                obs.append(_observe(target, rule, text, k))
        except Exception as err:  # noqa: BLE001
            obs.append(("op-exc", type(err).__name__, str(err)[:120]))
    return obs


def run_isolated(req):
    """Child (fresh): one parser [+ module], one observation."""
    import pest

    parser = pest.Parser.from_grammar(req["text"], optimizer=_make_optimizer(req["cfg"]))
    if req["what"] == "source":
        return ("source", parser.generate())
    target = parser
    if req["which"] == "gen":
        target = _load_module(parser.generate())
    return _observe(target, req["rule"], req["input"], req["k"])


# --- owned schedules


def run_schedule(req):
    """Child: run tasks on threads under the cooperative LINE-event scheduler; return results + switches."""
    import random
    import sys
    import threading

    import pest

    texts = req["texts"]
    objs = []
    for gi, cfg, which in req["objects"]:
        p = pest.Parser.from_grammar(texts[gi], optimizer=_make_optimizer(cfg))
        objs.append(p if which == "int" else _load_module(p.generate()))
    tasks = req["tasks"]  # per thread: [(obj index, rule, text, k)]

    # sequential reference first (same process, same objects)
    seq = [[_observe_plain(objs[o], r, t, k) for o, r, t, k in ts] for ts in tasks]
    if req.get("free"):
        return {"seq": seq, "runs": [_free_run(objs, tasks) for _ in range(3)]}

    mon = sys.monitoring
    tool = 4
    if mon.get_tool(tool) is None:
        mon.use_tool_id(tool, "pestverif-sched")
    n = len(tasks)
    rng = random.Random(req["seed"])
    sems = [threading.Semaphore(0) for _ in range(n)]
    alive = [True] * n
    state = {"cur": 0, "switches": 0, "inside": 0}
    tids = {}
    p_switch = req["p"]

    def on_line(code, _line):
        fn = code.co_filename
        if "/pest/" not in fn and fn != "<generated>":
            return mon.DISABLE
        i = tids.get(threading.get_ident())
        if i is None or i != state["cur"]:
            return None
        if rng.random() < p_switch:
            others = [j for j, a in enumerate(alive) if a and j != i]
            if others:
                j = rng.choice(others)
                state["switches"] += 1
                state["cur"] = j
                sems[j].release()
                sems[i].acquire()
        return None

    results = [[] for _ in range(n)]

    def worker(i):
        tids[threading.get_ident()] = i
        sems[i].acquire()
        try:
            for o, r, t, k in tasks[i]:
                results[i].append(_observe_plain(objs[o], r, t, k))
        finally:
            alive[i] = False
            others = [j for j, a in enumerate(alive) if a]
            if others:
                j = rng.choice(others)
                state["cur"] = j
                sems[j].release()

    mon.register_callback(tool, mon.events.LINE, on_line)
    threads = [threading.Thread(target=worker, args=(i,)) for i in range(n)]
    for t in threads:
        t.start()
    mon.restart_events()
    mon.set_events(tool, mon.events.LINE)
    state["cur"] = 0
    sems[0].release()
    for t in threads:
        t.join(60)
    mon.set_events(tool, 0)
    hung = any(t.is_alive() for t in threads)
    return {"seq": seq, "results": results, "switches": state["switches"], "hung": hung}


def _observe_plain(target, rule, text, k):
    import pest

    try:
        pairs = target.parse(rule, text, start_pos=k)
    except pest.PestParsingError as err:
        st = err.state
        return ("fail", st.furthest_pos, sorted((a, tuple(b)) for a, b in st.furthest_expected.items()),
                sorted((a, tuple(b)) for a, b in st.furthest_unexpected.items()))
    except Exception as err:  # noqa: BLE001
        return ("exc", type(err).__name__, str(err)[:120])
    from pestverif import modes

    return ("ok", modes.norm_tree(pairs))


def _free_run(objs, tasks):
    import sys
    import threading

    old = sys.getswitchinterval()
    sys.setswitchinterval(1e-6)
    results = [[] for _ in tasks]
    barrier = threading.Barrier(len(tasks))

    def worker(i):
        barrier.wait()
        for _rep in range(3):
            for o, r, t, k in tasks[i]:
                results[i].append(_observe_plain(objs[o], r, t, k))

    threads = [threading.Thread(target=worker, args=(i,)) for i in range(len(tasks))]
    for t in threads:
        t.start()
    for t in threads:
        t.join(60)
    sys.setswitchinterval(old)
    return results


# ----------------------------------------------------------------------------- driver side


def history_strategy():
    from hypothesis import strategies as st

    return st.tuples(st.randoms(use_true_random=False), st.integers(8, 30))


def build_history(rng, nops):
    """Returns (texts, calls per grammar, ops)."""
    from pestverif import fullcase

    texts = [t for t, _ in POOL]
    calls = [list(c) for _, c in POOL]
    for _ in range(2):
        case = fullcase.draw(rng, "full", n_inputs=5, max_rules=3)
        texts.append(case["text"])
        calls.append([(r, inp) for inp, _ in case["inputs"] for r in case["main"][:2]])
    ops = []
    slots = []  # (gi, cfg, has_module)
    for _ in range(nops):
        x = rng.random()
        if not slots or x < 0.3:
            gi = rng.randrange(len(texts))
            cfg = rng.choice(CONFIGS)
            slots.append([gi, cfg, False])
            ops.append(("create", len(slots) - 1, gi, cfg))
        elif x < 0.45:
            s = rng.randrange(len(slots))
            slots[s][2] = True
            ops.append(("generate", s))
        else:
            s = rng.randrange(len(slots))
            gi = slots[s][0]
            if not calls[gi]:
                continue
            rule, inp = rng.choice(calls[gi])
            which = "gen" if slots[s][2] and rng.random() < 0.5 else "int"
            k = 0 if rng.random() < 0.8 or not inp else rng.randint(0, len(inp))
            ops.append(("parse", s, which, rule, inp, k))
    return texts, ops, slots


def isolated(memo, key, req):
    from pestverif.modes import one_shot

    if key not in memo:
        memo[key] = one_shot("mixed", "pestverif.props.c15:run_isolated", req)
    return memo[key]


def check_history(texts, ops, memo):
    """Returns (violations [(bucket, op index, detail)], nontrivial, n_compared)."""
    from pestverif.modes import one_shot
    from pestverif.runner import h64

    obs = one_shot("mixed", "pestverif.props.c15:run_history", {"texts": texts, "ops": ops})
    slots = {}
    out = []
    n = 0
    configs_seen = set()
    nontrivial = False
    for i, (op, ob) in enumerate(zip(ops, obs)):
        if op[0] == "create":
            slots[op[1]] = (op[2], op[3])
            continue
        gi, cfg = slots[op[1]]
        ckey = h64(cfg)
        if op[0] == "generate":
            want = isolated(memo, ("src", texts[gi], ckey), {"text": texts[gi], "cfg": cfg, "what": "source"})
            n += 1
            if ob != want:
                out.append((f"generate:{'raw' if cfg == 'raw' else 'optimized'}", i,
                            f"generate() after this history differs from generate() in a fresh process (op {i})"))
            continue
        _, s, which, rule, inp, k = op
        want = isolated(memo, ("p", texts[gi], ckey, which, rule, inp, k),
                        {"text": texts[gi], "cfg": cfg, "what": "parse", "which": which, "rule": rule, "input": inp, "k": k})
        n += 1
        others = {(g, h64(c)) for g, c in slots.values()} - {(gi, ckey)}
        if others:
            nontrivial = True
        if ob[0] in ("budget", "recursion") or want[0] in ("budget", "recursion"):
            continue
        if ob != want:
            what = "tree" if ob[0] == want[0] == "ok" else "failure-report" if ob[0] == want[0] == "fail" else "outcome"
            out.append((f"history:{what}:{'raw' if cfg == 'raw' else 'optimized'}-{which}", i,
                        f"op {i} {op}: in the history {str(ob)[:250]}; in isolation {str(want)[:250]}"))
    return out, nontrivial, n


def shrink_history(texts, ops, bucket, memo):
    """Greedy removal of operations while a violation of the same bucket remains."""

    def fails(cand):
        # keep only well-formed histories: every slot used must have been created (and generated for gen)
        created, generated = set(), set()
        for op in cand:
            if op[0] == "create":
                created.add(op[1])
            elif op[0] == "generate":
                if op[1] not in created:
                    return False
                generated.add(op[1])
            elif op[1] not in created or (op[2] == "gen" and op[1] not in generated):
                return False
        v, _, _ = check_history(texts, cand, memo)
        return any(b == bucket for b, _, _ in v)

    from pestverif.shrink import ddmin_list

    return ddmin_list(list(ops), fails, 60)


def shards(tier: str):
    return [{"idx": i} for i in range(16)]


def run_shard(ctx: Ctx, spec):
    import random

    import hypothesis
    from hypothesis import HealthCheck, Phase, settings

    from pestverif.modes import one_shot

    size = SIZES[ctx.tier]
    memo: dict = {}

    @hypothesis.seed(ctx.sub_seed("hist"))
    @settings(max_examples=size["hist"], deadline=None, database=None, phases=[Phase.generate],
              suppress_health_check=list(HealthCheck))
    @hypothesis.given(history_strategy())
    def th(case):
        rng, nops = case
        texts, ops, _slots = build_history(rng, nops)
        v, nt, n = check_history(texts, ops, memo)
        ctx.evals += n
        ctx.count("histories")
        ctx.count("history_ops", len(ops))
        if nt:
            ctx.nontrivial(["hist", texts[5:], ops])
        for bucket, i, detail in v:
            ctx.violation(bucket, {"kind": "history", "texts": texts, "ops": [list(o) for o in ops], "bucket": bucket}, detail)
        if len(ctx.samples) < 2:
            ctx.sample({"kind": "history", "ops": [list(o) for o in ops][:12], "n_ops": len(ops)})

    th()

    # owned schedules
    rng = random.Random(ctx.sub_seed("sched"))
    texts = [t for t, _ in POOL]
    for si in range(size["sched"]):
        objects = []
        for _ in range(rng.randint(1, 3)):
            gi = rng.randrange(len(POOL))
            objects.append((gi, rng.choice(["raw", "opt"]), rng.choice(["int", "gen"])))
        nthreads = rng.randint(2, 4)
        tasks = []
        for _ in range(nthreads):
            ts = []
            for _ in range(rng.randint(2, 3)):
                o = rng.randrange(len(objects))
                rule, inp = rng.choice(POOL[objects[o][0]][1])
                ts.append((o, rule, inp, 0))
            tasks.append(ts)
        seed = rng.randrange(2**31)
        p = rng.choice([0.02, 0.1, 0.3, 0.6])
        req = {"texts": texts, "objects": objects, "tasks": tasks, "seed": seed, "p": p}
        res = one_shot("mixed", "pestverif.props.c15:run_schedule", req, timeout=180)
        ctx.evals += sum(len(t) for t in tasks)
        ctx.count("schedules")
        ctx.count("preemptions", res["switches"])
        if res["switches"] >= 1:
            ctx.nontrivial(["sched", objects, tasks, seed, p])
        if res["hung"]:
            ctx.violation("schedule:hung", {"kind": "schedule", **req}, "a thread did not finish under the owned scheduler")
        elif res["results"] != res["seq"]:
            ctx.violation("schedule:result", {"kind": "schedule", **req},
                          f"results under the schedule differ from the sequential results: {str(res['results'])[:300]} vs {str(res['seq'])[:300]}")
        if len(ctx.samples) < 4 and res["switches"]:
            ctx.sample({"kind": "schedule", "objects": objects, "tasks": tasks, "seed": seed, "p": p, "preemptions": res["switches"]})
    # free-running supplement (one per shard)
    objects = [(0, "raw", "int"), (0, "opt", "gen"), (2, "opt", "int")]
    tasks = [[(i % 3, *POOL[objects[i % 3][0]][1][j % 4], 0) for j in range(3)] for i in range(8)]
    res = one_shot("mixed", "pestverif.props.c15:run_schedule", {"texts": texts, "objects": objects, "tasks": tasks, "free": True}, timeout=240)
    want = [r * 3 for r in res["seq"]]
    ctx.evals += 3 * sum(len(t) for t in tasks)
    if all(run != want for run in res["runs"]):
        ctx.violation("free-running:result", {"kind": "free", "objects": objects, "tasks": tasks},
                      "8 free-running threads disagreed with the sequential results in three consecutive runs")
    ctx.count("free_running_runs", 3)


def replay(case):
    from pestverif.modes import one_shot

    if case["kind"] == "history":
        ops = [tuple(tuple(x) if isinstance(x, list) and i != 3 else x for i, x in enumerate(o)) for o in case["ops"]]
        ops = [tuple(o) for o in case["ops"]]
        v, _, _ = check_history(case["texts"], ops, {})
        for b, _i, d in v:
            if b == case.get("bucket", b):
                return f"{b}: {d}"
        return f"{v[0][0]}: {v[0][2]}" if v else None
    if case["kind"] == "schedule":
        req = {k: case[k] for k in ("texts", "objects", "tasks", "seed", "p")}
        req["objects"] = [tuple(o) for o in req["objects"]]
        req["tasks"] = [[tuple(t) for t in ts] for ts in req["tasks"]]
        res = one_shot("mixed", "pestverif.props.c15:run_schedule", req, timeout=180)
        if res["hung"]:
            return "schedule:hung: a thread did not finish"
        if res["results"] != res["seq"]:
            return f"schedule:result: {str(res['results'])[:300]} vs sequential {str(res['seq'])[:300]}"
        return None
    return None


def shrink(case):
    if case["kind"] != "history":
        return case
    ops = [tuple(o) for o in case["ops"]]
    small = shrink_history(case["texts"], ops, case["bucket"], {})
    return {**case, "ops": [list(o) for o in small]}
