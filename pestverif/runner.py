"""Shared check runner: sharding, evidence, findings protocol, exit codes (DESIGN G3, G6, G8, G9).

Exit codes: 0 = held on everything explored, 1 = VIOLATION line(s) printed, 2 = harness error.
"""

from __future__ import annotations

import collections
import hashlib
import importlib
import json
import multiprocessing as mp
import os
import sys
import time
import traceback

ROOT = os.path.dirname(os.path.dirname(os.path.abspath(__file__)))
NSHARDS = 16
WATCHDOG_S = {"quick": 900, "thorough": 4 * 3600}
MAX_SAMPLES = 12


def repo_root() -> str:
    """Root of the python-pest tree under test: the tree `import pest` resolves to (normally /repo)."""
    try:
        import pest

        root = os.path.dirname(os.path.dirname(os.path.dirname(os.path.abspath(pest.__file__))))
        if os.path.isdir(os.path.join(root, "tests", "grammars")):
            return root
    except Exception:  # noqa: BLE001
        pass
    return "/repo"


class HarnessError(Exception):
    """Something is wrong with the machinery, not with python-pest."""


def h64(obj: object) -> int:
    """Stable 64 bit hash of a JSON-like object (independent of PYTHONHASHSEED)."""
    data = json.dumps(obj, sort_keys=True, default=repr, ensure_ascii=True).encode()
    return int.from_bytes(hashlib.blake2b(data, digest_size=8).digest(), "big")


def derive_seed(*parts: object) -> int:
    return h64(list(parts)) & 0x7FFFFFFF


class Ctx:
    """Per-shard accumulator handed to a property's `run_shard`."""

    def __init__(self, prop: str, tier: str, seed: int, shard: int, nshards: int):
        self.prop = prop
        self.tier = tier
        self.seed = seed
        self.shard = shard
        self.nshards = nshards
        self.evals = 0
        self.nt: set[int] = set()
        self.nt_extra = 0  # distinct by construction (exhaustive enumerations)
        self.samples: list[object] = []
        self.hist: collections.Counter[str] = collections.Counter()
        self.viol: dict[str, dict] = {}
        self.viol_counts: collections.Counter[str] = collections.Counter()
        self.exhaustive: dict[str, object] = {}

    def sub_seed(self, *tags: object) -> int:
        return derive_seed(self.seed, self.prop, self.shard, *tags)

    def ev(self, n: int = 1) -> None:
        self.evals += n

    def nontrivial(self, key: object) -> None:
        self.nt.add(h64(key))

    def count(self, label: str, n: int = 1) -> None:
        self.hist[label] += n

    def sample(self, obj: object, force: bool = False) -> None:
        if force or len(self.samples) < 3:
            self.samples.append(obj)

    def violation(self, bucket: str, case: dict, detail: str) -> None:
        self.viol_counts[bucket] += 1
        size = len(json.dumps(case, default=repr))
        old = self.viol.get(bucket)
        if old is None or size < old["size"]:
            self.viol[bucket] = {"case": case, "detail": detail, "size": size}

    def result(self) -> dict:
        return {
            "evals": self.evals,
            "nt": self.nt,
            "nt_extra": self.nt_extra,
            "samples": self.samples,
            "hist": dict(self.hist),
            "viol": self.viol,
            "viol_counts": dict(self.viol_counts),
            "exhaustive": self.exhaustive,
        }


def _shard_entry(args: tuple) -> dict:
    prop, tier, seed, shard, nshards, spec = args
    try:
        mod = importlib.import_module(f"pestverif.props.{prop.lower()}")
        ctx = Ctx(prop, tier, seed, shard, nshards)
        mod.run_shard(ctx, spec)
        return ctx.result()
    except BaseException:  # noqa: BLE001 - reported to the parent as a harness error
        return {"harness_error": traceback.format_exc()}


def _shard_proc(conn, job) -> None:
    from pestverif import budget

    budget.die_with_parent()
    try:
        conn.send(_shard_entry(job))
    finally:
        conn.close()


def run_jobs(jobs: list, nproc: int, tier: str = "quick") -> list:
    """Run shard jobs in non-daemonic forked processes (shards start their own workers)."""
    ctx = mp.get_context("fork")
    pending = list(enumerate(jobs))
    running: dict[int, tuple] = {}
    results: list = [None] * len(jobs)
    deadline = time.time() + int(os.environ.get("PESTVERIF_WATCHDOG_S", WATCHDOG_S.get(tier, 900)))
    try:
        while pending or running:
            while pending and len(running) < nproc:
                idx, job = pending.pop(0)
                parent, child = ctx.Pipe(duplex=False)
                p = ctx.Process(target=_shard_proc, args=(child, job), daemon=False)
                p.start()
                child.close()
                running[idx] = (p, parent)
            progressed = False
            for idx, (p, conn) in list(running.items()):
                if conn.poll(0):
                    try:
                        results[idx] = conn.recv()
                    except EOFError:
                        results[idx] = {"harness_error": f"shard {idx} died without a result"}
                    p.join()
                    del running[idx]
                    progressed = True
                elif not p.is_alive():
                    if conn.poll(0.2):
                        continue
                    results[idx] = {"harness_error": f"shard {idx} exited with code {p.exitcode}"}
                    del running[idx]
                    progressed = True
            if time.time() > deadline:
                raise HarnessError("watchdog: shards did not finish in time")
            if not progressed:
                time.sleep(0.02)
    finally:
        for p, _ in running.values():
            if p.is_alive():
                p.kill()
    return results


def _child_call(conn, prop: str, fn: str, arg: object) -> None:
    from pestverif import budget

    budget.die_with_parent()
    try:
        mod = importlib.import_module(f"pestverif.props.{prop.lower()}")
        conn.send(("ok", getattr(mod, fn)(arg)))
    except BaseException:  # noqa: BLE001
        conn.send(("err", traceback.format_exc()))
    finally:
        conn.close()


def in_fresh_child(prop: str, fn: str, arg: object, timeout: float = 300.0) -> object:
    """Run `props.<prop>.<fn>(arg)` in a freshly forked child of the pristine driver."""
    ctx = mp.get_context("fork")
    parent, child = ctx.Pipe(duplex=False)
    p = ctx.Process(target=_child_call, args=(child, prop, fn, arg))
    p.start()
    child.close()
    try:
        if not parent.poll(timeout):
            p.kill()
            raise HarnessError(f"{prop}.{fn}: child timed out after {timeout}s")
        try:
            status, value = parent.recv()
        except EOFError as err:
            raise HarnessError(f"{prop}.{fn}: child died without an answer") from err
    finally:
        p.join(5)
        if p.is_alive():
            p.kill()
    if status == "err":
        raise HarnessError(f"{prop}.{fn} failed in child:\n{value}")
    return value


def load_findings() -> list[dict]:
    path = os.path.join(ROOT, "known_findings.jsonl")
    out = []
    if os.path.exists(path):
        with open(path, encoding="utf-8") as fh:
            for line in fh:
                line = line.strip()
                if line and not line.startswith("#"):
                    out.append(json.loads(line))
    return out


def open_findings(prop: str) -> list[dict]:
    return [
        f for f in load_findings() if f.get("status") == "open" and prop in f["properties"]
    ]


def write_replay(prop: str, bucket: str, case: dict, detail: str) -> str:
    d = os.path.join(ROOT, "replays", prop)
    os.makedirs(d, exist_ok=True)
    name = f"{h64([bucket, case]):016x}.json"
    path = os.path.join(d, name)
    with open(path, "w", encoding="utf-8") as fh:
        json.dump(
            {"property": prop, "bucket": bucket, "detail": detail, "case": case},
            fh,
            indent=1,
            ensure_ascii=True,
            default=repr,
        )
    return path


def check(prop: str, tier: str) -> int:
    t0 = time.time()
    seed = int(os.environ.get("VERIF_SEED", "1") or "1")
    os.environ["PESTVERIF_TIER"] = tier if tier in ("quick", "thorough") else "quick"
    mod = importlib.import_module(f"pestverif.props.{prop.lower()}")
    lines: list[str] = []
    nviol = 0

    # 1. known findings and fixed regressions (DESIGN 5.2)
    known_lines = 0
    for f in load_findings():
        if prop not in f["properties"]:
            continue
        repro = (f.get("repro") or {}).get(prop)
        if repro is None:
            continue
        detail = in_fresh_child(prop, "replay", repro)
        if f["status"] == "open":
            if detail:
                print(f"KNOWN-FINDING: property={prop} {f['what']}")
                known_lines += 1
            else:
                print(f"note: known finding {f['id']} no longer reproduces for {prop}")
        elif f["status"] == "fixed" and detail:
            path = write_replay(prop, "regression:" + f["id"], repro, detail)
            print(f"VIOLATION property={prop} replay={path}")
            print(f"  fixed finding {f['id']} came back: {detail}")
            nviol += 1

    # 2. optional self-test of the oracle (exit 2 on failure)
    if hasattr(mod, "selftest"):
        msg = in_fresh_child(prop, "selftest", tier, timeout=600)
        if msg:
            raise HarnessError(f"oracle self-test failed: {msg}")

    # 3. shards
    specs = mod.shards(tier)
    jobs = [(prop, tier, seed, i, len(specs), spec) for i, spec in enumerate(specs)]
    results = run_jobs(jobs, min(len(jobs), int(os.environ.get("PESTVERIF_PROCS", "16"))), tier)

    evals = 0
    nt: set[int] = set()
    nt_extra = 0
    samples: list[object] = []
    hist: collections.Counter[str] = collections.Counter()
    viol: dict[str, dict] = {}
    viol_counts: collections.Counter[str] = collections.Counter()
    exhaustive: dict[str, object] = {}
    for res in results:
        if "harness_error" in res:
            raise HarnessError("shard failed:\n" + res["harness_error"])
        evals += res["evals"]
        nt |= res["nt"]
        nt_extra += res["nt_extra"]
        for s in res["samples"]:
            if len(samples) < MAX_SAMPLES:
                samples.append(s)
        hist.update(res["hist"])
        viol_counts.update(res["viol_counts"])
        exhaustive.update(res["exhaustive"])
        for b, v in res["viol"].items():
            if b not in viol or v["size"] < viol[b]["size"]:
                viol[b] = v

    # 4. confirm, shrink and report violations (G5 confirmation rule, G8)
    unconfirmed = 0
    seen_cases: set[int] = set()
    max_buckets = int(os.environ.get("PESTVERIF_MAX_BUCKETS", "12"))
    ordered = sorted(viol, key=lambda b: (viol[b]["size"], b))
    if len(ordered) > max_buckets:
        lines.append(f"note: {len(ordered) - max_buckets} further violation buckets not reported")
    for bucket in ordered[:max_buckets]:
        v = viol[bucket]
        case = v["case"]
        detail = in_fresh_child(prop, "replay", case)
        if not detail:
            unconfirmed += 1
            hist["not_reproducible_in_isolation"] += 1
            lines.append(f"note: bucket {bucket} did not reproduce in isolation (left to C15)")
            continue
        if hasattr(mod, "shrink"):
            try:
                case = in_fresh_child(prop, "shrink", case, timeout=600) or case
                detail = in_fresh_child(prop, "replay", case) or detail
            except HarnessError as err:
                lines.append(f"note: shrinking failed for {bucket}: {err}")
                case = v["case"]
        if h64(case) in seen_cases:
            continue
        seen_cases.add(h64(case))
        path = write_replay(prop, bucket, case, detail)
        print(f"VIOLATION property={prop} replay={path}")
        print(f"  bucket={bucket} hits={viol_counts[bucket]} detail={detail[:600]}")
        nviol += 1

    for line in lines:
        print(line)

    # 5. evidence
    wall = time.time() - t0
    coverage: dict[str, object] = {
        "evaluations": evals,
        "distinct_nontrivial": len(nt) + nt_extra,
        "rule": mod.RULE,
        "samples": samples,
        "histogram": dict(sorted(hist.items())),
        "shards": len(specs),
        "known_findings_reported": known_lines,
        "violation_buckets": {b: viol_counts[b] for b in sorted(viol)},
    }
    if exhaustive:
        coverage["exhaustive"] = bool(exhaustive.get("complete", False))
        coverage["exhaustive_bounds"] = {k: v for k, v in exhaustive.items() if k != "complete"}
    evidence = {
        "property_id": prop,
        "tier": tier,
        "seed": seed,
        "level": "exploration",
        "coverage": coverage,
        "assumptions": list(getattr(mod, "ASSUMPTIONS", [])),
        "wall_s": round(wall, 2),
        "violations": nviol,
    }
    # PESTVERIF_EVIDENCE_DIR: scratch runs against patched worktrees (tools_mutant.sh) must not overwrite the
    # evidence of the unchanged tree
    evdir = os.environ.get("PESTVERIF_EVIDENCE_DIR") or os.path.join(ROOT, "evidence")
    os.makedirs(evdir, exist_ok=True)
    with open(os.path.join(evdir, f"{prop}.json"), "w", encoding="utf-8") as fh:
        json.dump(evidence, fh, indent=1, ensure_ascii=True, default=repr)
        fh.write("\n")

    print(
        f"{prop} {tier} seed={seed}: evaluations={evals} distinct_nontrivial={len(nt) + nt_extra} "
        f"violations={nviol} wall={wall:.1f}s"
    )
    if evals < 1 or len(nt) + nt_extra < 2:
        raise HarnessError("vacuous run: no evaluations or fewer than 2 non-trivial cases")
    return 1 if nviol else 0


def replay(prop: str, path: str) -> int:
    with open(path, encoding="utf-8") as fh:
        data = json.load(fh)
    case = data["case"] if "case" in data else data
    detail = in_fresh_child(prop, "replay", case)
    if detail:
        print(f"VIOLATION property={prop} replay={path}")
        print("  " + str(detail)[:2000])
        return 1
    print(f"{prop}: replay of {path} holds")
    return 0


def main(argv: list[str]) -> int:
    os.environ.setdefault("PYTHONHASHSEED", "0")
    try:
        if len(argv) >= 2 and argv[0] == "check":
            tier = "quick"
            if "--tier" in argv:
                tier = argv[argv.index("--tier") + 1]
            elif os.environ.get("VERIF_TIER") in ("quick", "thorough"):
                tier = os.environ["VERIF_TIER"]
            return check(argv[1].upper(), tier)
        if len(argv) >= 3 and argv[0] == "replay":
            return replay(argv[1].upper(), argv[2])
        print("usage: python -m pestverif check <ID> [--tier quick|thorough] | replay <ID> <file>")
        return 2
    except HarnessError as err:
        print(f"HARNESS-ERROR: {err}", file=sys.stderr)
        return 2
    except Exception:  # noqa: BLE001
        traceback.print_exc()
        print("HARNESS-ERROR: unexpected exception in the harness", file=sys.stderr)
        return 2
