"""python-pest Expression objects -> harness AST (used by C10's structure comparison, inside a worker)."""

from __future__ import annotations


class UnknownNode(Exception):
    pass


def mod_str(m: int) -> str:
    from pest.grammar.rule import ATOMIC, COMPOUND, NONATOMIC, SILENT

    return {0: "", SILENT: "_", ATOMIC: "@", COMPOUND: "$", NONATOMIC: "!"}.get(m, f"?{m}")


def conv(e):
    from pest.grammar import expressions as X
    from pest.grammar.rule import BuiltInRule

    def tagged(node, out):
        t = getattr(node, "tag", None)
        return ("tag", t, out) if t else out

    if isinstance(e, BuiltInRule):
        return ("id", e.name)
    if isinstance(e, X.Identifier):
        return tagged(e, ("id", e.value))
    if isinstance(e, X.String):
        return tagged(e, ("str", e.value))
    if isinstance(e, X.CIString):
        return tagged(e, ("ci", e.value))
    if isinstance(e, X.Range):
        return tagged(e, ("range", e.start, e.stop))
    if isinstance(e, X.Group):
        return tagged(e, ("grp", conv(e.expression)))
    if isinstance(e, X.Sequence):
        return tagged(e, ("seq", tuple(conv(c) for c in e.expressions)))
    if isinstance(e, X.Choice):
        return tagged(e, ("alt", tuple(conv(c) for c in e.expressions)))
    if isinstance(e, X.Optional):
        return tagged(e, ("opt", conv(e.expression)))
    if isinstance(e, X.Repeat):
        return tagged(e, ("star", conv(e.expression)))
    if isinstance(e, X.RepeatOnce):
        return tagged(e, ("plus", conv(e.expression)))
    if isinstance(e, X.RepeatExact):
        return tagged(e, ("exact", conv(e.expression), e.number))
    if isinstance(e, X.RepeatMin):
        return tagged(e, ("min", conv(e.expression), e.number))
    if isinstance(e, X.RepeatMax):
        return tagged(e, ("max", conv(e.expression), e.number))
    if isinstance(e, X.RepeatMinMax):
        return tagged(e, ("minmax", conv(e.expression), e.min, e.max))
    if isinstance(e, X.PositivePredicate):
        return tagged(e, ("and", conv(e.expression)))
    if isinstance(e, X.NegativePredicate):
        return tagged(e, ("not", conv(e.expression)))
    if isinstance(e, X.Push):
        return tagged(e, ("push", conv(e.expression)))
    if isinstance(e, X.PushLiteral):
        return tagged(e, ("pushlit", e.value))
    if isinstance(e, X.PeekSlice):
        return tagged(e, ("slice", e.start, e.stop))
    if isinstance(e, X.Peek):
        return tagged(e, ("id", "PEEK"))
    if isinstance(e, X.PeekAll):
        return tagged(e, ("id", "PEEK_ALL"))
    if isinstance(e, X.Pop):
        return tagged(e, ("id", "POP"))
    if isinstance(e, X.PopAll):
        return tagged(e, ("id", "POP_ALL"))
    if isinstance(e, X.Drop):
        return tagged(e, ("id", "DROP"))
    raise UnknownNode(type(e).__name__)


def structure(parser) -> dict:
    from pest.grammar.rule import GrammarRule

    rules = []
    for r in parser.rules.values():
        if isinstance(r, GrammarRule):
            rules.append((r.name, mod_str(r.modifier), conv(r.expression), tuple(r.doc or ())))
    return {"docs": list(parser.doc or []), "rules": rules}
