"""pestverif - property-based verification machinery for jg-rp/python-pest (see /verif/DESIGN.md)."""
