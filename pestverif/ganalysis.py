"""Well-formedness analysis: nullability, left recursion, repetition over nullable (DESIGN G1/G2).

"Progress" means consuming input: PEEK, POP, PEEK_ALL, POP_ALL, PEEK[..], PUSH_LITERAL, DROP, SOI, EOI, ""
and predicates are treated as possibly-empty.
"""

from __future__ import annotations

from pestverif.gast import POSTFIX, PREFIX, STACK_IDS, children

_EMPTY_IDS = set(STACK_IDS) | {"SOI", "EOI"}


class Analysis:
    # e{0}, e{,0}, e{0,0}: the library accepts them (they match the empty string); the generator emits them only
    # for the checks that need no reference semantics (feature "zerorep"), the reference evaluator refuses them
    allow_zero_reps = True

    def __init__(self, rules):
        self.rules = {n: (m, e) for n, m, e in rules}
        self.null: dict[str, bool] = {n: False for n in self.rules}
        changed = True
        while changed:
            changed = False
            for n, (_, e) in self.rules.items():
                v = self.nullable(e)
                if v and not self.null[n]:
                    self.null[n] = True
                    changed = True

    def nullable(self, e) -> bool:
        k = e[0]
        if k in ("str", "ci"):
            return e[1] == ""
        if k == "range":
            return False
        if k == "id":
            if e[1] in self.rules:
                return self.null[e[1]]
            return e[1] in _EMPTY_IDS
        if k == "seq":
            return all(self.nullable(x) for x in e[1])
        if k == "alt":
            return any(self.nullable(x) for x in e[1])
        if k in ("opt", "star", "max", "and", "not", "pushlit", "slice"):
            return True
        if k == "exact" and e[2] == 0:
            return True
        if k in ("plus", "exact", "push", "grp"):
            return self.nullable(e[1])
        if k == "tag":
            return self.nullable(e[2])
        if k == "min":
            return e[2] == 0 or self.nullable(e[1])
        if k == "minmax":
            return e[2] == 0 or self.nullable(e[1])
        raise ValueError(k)

    def first_calls(self, e) -> set[str]:
        """Rules that may be called before any input has been consumed."""
        k = e[0]
        if k == "id":
            return {e[1]} if e[1] in self.rules else set()
        if k == "seq":
            out: set[str] = set()
            for x in e[1]:
                out |= self.first_calls(x)
                if not self.nullable(x):
                    break
            return out
        out = set()
        for c in children(e):
            out |= self.first_calls(c)
        return out

    def left_recursive(self) -> set[str]:
        first = {n: self.first_calls(e) for n, (_, e) in self.rules.items()}
        bad = set()
        for n in self.rules:
            seen: set[str] = set()
            todo = list(first[n])
            while todo:
                x = todo.pop()
                if x == n:
                    bad.add(n)
                    break
                if x not in seen:
                    seen.add(x)
                    todo.extend(first[x])
        return bad

    def undefined_refs(self, builtins) -> set[str]:
        from pestverif.gast import walk

        out = set()
        for _, e in self.rules.values():
            for n in walk(e):
                if n[0] == "id" and n[1] not in self.rules and n[1] not in builtins:
                    out.add(n[1])
        return out

    def nullable_repetitions(self) -> list:
        from pestverif.gast import walk

        out = []
        for name, (_, e) in self.rules.items():
            for n in walk(e):
                if n[0] in POSTFIX and n[0] != "opt" and self.nullable(n[1]):
                    out.append((name, n))
        return out

    def bad_bounds(self) -> list:
        from pestverif.gast import walk

        out = []
        for name, (_, e) in self.rules.items():
            for n in walk(e):
                if n[0] in ("exact", "max") and n[2] == 0 and not self.allow_zero_reps:
                    out.append((name, n))
                if n[0] == "minmax" and ((n[3] == 0 and not (self.allow_zero_reps and n[2] == 0)) or n[3] < n[2]):
                    out.append((name, n))
        return out

    def problems(self, builtins) -> list[str]:
        out = []
        lr = self.left_recursive()
        if lr:
            out.append(f"left recursion: {sorted(lr)}")
        nr = self.nullable_repetitions()
        if nr:
            out.append(f"repetition over nullable: {nr[:2]}")
        bb = self.bad_bounds()
        if bb:
            out.append(f"bad bounds: {bb[:2]}")
        ur = self.undefined_refs(builtins)
        if ur:
            out.append(f"undefined rules: {sorted(ur)}")
        for t in ("WHITESPACE", "COMMENT"):
            if t in self.rules and self.null[t]:
                out.append(f"nullable {t}")
        return out


assert PREFIX  # re-exported for callers
