"""Generators: well-formed grammars by construction (DESIGN G2) and inputs derived from them.

All randomness comes from the `rng` argument (a `random.Random`-like object). Checks pass either a
Hypothesis-controlled `st.randoms(use_true_random=False)` object or a `random.Random` seeded from
VERIF_SEED, so every run is a pure function of the seed.

Features (a set of strings) select what may be generated:
  ci, ranges, builtins, unicode, soi, trivia, atomic, stack, tags, recursion, bait, groups, emptystr
"""

from __future__ import annotations

from pestverif.gast import ASCII_IDS, UNICODE_IDS, walk

PROFILES = {
    "core": {"ci", "ranges", "builtins", "soi", "recursion", "emptystr", "leak"},
    "trivia": {"ci", "ranges", "builtins", "soi", "trivia", "atomic", "recursion", "leak"},
    "stack": {"ranges", "soi", "stack", "recursion", "leak"},
    "full": {
        "ci", "ranges", "builtins", "unicode", "soi", "trivia", "atomic", "stack", "tags", "recursion",
        "groups", "emptystr", "leak", "wildtrivia", "zerorep",
    },
    "bait": {"ci", "ranges", "builtins", "unicode", "soi", "trivia", "atomic", "bait", "groups", "tags", "leak"},
}
PROFILES["soi-free"] = PROFILES["full"] - {"soi"}

LITERALS = ["a", "b", "ab", "ba", "aa", "a", "b", "abc", "A", "1", "x"]
WS_BODIES = [
    ("str", " "),
    ("str", " "),
    ("alt", (("str", " "), ("str", "\t"))),
    ("alt", (("str", " "), ("str", "\n"))),
    ("range", " ", " "),
    ("id", "ws__"),
    ("seq", (("str", " "), ("str", "\t"))),  # a blank that is not followed by a tab fails after consuming
    ("seq", (("str", " "), ("opt", ("str", "\t")))),
    ("alt", (("str", " "), ("str", "\t"), ("id", "NEWLINE"))),  # the usual real-world definition
]
COMMENT_BODIES = [
    ("str", "#"),
    ("seq", (("str", "/*"), ("star", ("seq", (("not", ("str", "*/")), ("id", "ANY")))), ("str", "*/"))),
    ("seq", (("str", "#"), ("star", ("seq", (("not", ("id", "NEWLINE")), ("id", "ANY")))))),
    ("seq", (("str", "<"), ("star", ("range", "a", "b")), ("str", ">"))),
    ("seq", (("str", "/*"), ("str", "c"), ("str", "*/"))),
    ("str", " #"),  # shares a prefix with WHITESPACE: pest skips WHITESPACE* first
]
CHAR_SAMPLES = {
    "ANY": "ab1 Aé",
    "ASCII_DIGIT": "0159",
    "ASCII_NONZERO_DIGIT": "19",
    "ASCII_BIN_DIGIT": "01",
    "ASCII_OCT_DIGIT": "07",
    "ASCII_HEX_DIGIT": "0afAF9",
    "ASCII_ALPHA_LOWER": "abz",
    "ASCII_ALPHA_UPPER": "ABZ",
    "ASCII_ALPHA": "abAZ",
    "ASCII_ALPHANUMERIC": "ab1A",
    "ASCII": "ab1 \x7f",
    "NEWLINE": "\n",
    "LETTER": "aAéΣ",
    "UPPERCASE_LETTER": "AΣ",
    "LOWERCASE_LETTER": "aé",
    "NUMBER": "1٣",
    "DECIMAL_NUMBER": "1٣",
}


class Gen:
    def __init__(self, rng, feats, max_rules=5, max_depth=4):
        self.r = rng
        self.f = set(feats)
        self.max_rules = max_rules
        self.max_depth = max_depth
        self.nullable: dict[str, bool] = {}
        self.names: list[str] = []
        self.extra: list = []  # helper rules created on the fly (abandoned-attempt bait)

    # ------------------------------------------------------------------ terminals
    def literal(self):
        r = self.r
        if "unicode" in self.f and r.random() < 0.08:
            return r.choice(["é", "aé", "Σ"])
        return r.choice(LITERALS)

    def char_rule(self):
        r = self.r
        pool = ["ANY", "ANY", "ASCII_DIGIT", "ASCII_ALPHA", "ASCII_ALPHA_LOWER", "ASCII_HEX_DIGIT"]
        if r.random() < 0.3:
            pool = ["ANY", "NEWLINE", *ASCII_IDS]
        if "unicode" in self.f and r.random() < 0.2:
            pool = list(UNICODE_IDS)
        return ("id", r.choice(pool))

    def range_(self):
        r = self.r
        opts = [("a", "b"), ("a", "z"), ("a", "a"), ("b", "c"), ("0", "9"), ("A", "b"), ("Z", "a"), ("A", "Z")]
        if "unicode" in self.f and r.random() < 0.1:
            opts = [("à", "ÿ"), ("a", "é")]
        lo, hi = r.choice(opts)
        return ("range", lo, hi)

    def term(self, need, later, guarded):
        """A leaf. Returns (expr, nullable)."""
        r = self.r
        f = self.f
        opts = ["str", "str", "str"]
        if "ci" in f:
            opts.append("ci")
        if "ranges" in f:
            opts.append("range")
        if "builtins" in f:
            opts += ["char", "char"]
        else:
            opts.append("any")
        if later:
            opts += ["ref", "ref", "ref"]
        if guarded and "recursion" in f and not need:
            opts.append("backref")
        if not need:
            opts.append("eoi")
            if "soi" in f:
                opts.append("soi")
            if "emptystr" in f and r.random() < 0.2:
                opts.append("empty")
            if "stack" in f:
                opts += ["stackop", "stackop", "stackop", "pushlit"]
        c = r.choice(opts)
        if c == "str":
            return ("str", self.literal()), False
        if c == "ci":
            return ("ci", r.choice(["a", "Ab", "b", "aB1", "k", "s", "ks", "é"] if "unicode" in f else ["a", "Ab", "b", "aB1", "k"])), False
        if c == "range":
            return self.range_(), False
        if c == "char":
            return self.char_rule(), False
        if c == "any":
            return ("id", "ANY"), False
        if c == "ref":
            cands = [n for n in later if not (need and self.nullable[n])]
            if cands:
                n = r.choice(cands)
                return self.maybe_tag(("id", n)), self.nullable[n]
            return ("str", self.literal()), False
        if c == "backref":
            return ("id", r.choice(self.names)), True
        if c == "eoi":
            return ("id", "EOI"), True
        if c == "soi":
            return ("id", "SOI"), True
        if c == "empty":
            return ("str", ""), True
        if c == "stackop":
            e = r.choice(
                [
                    ("id", "POP"), ("id", "POP"), ("id", "PEEK"), ("id", "PEEK"), ("id", "DROP"),
                    ("id", "PEEK_ALL"), ("id", "POP_ALL"),
                    ("slice", 0, None), ("slice", None, 1), ("slice", -1, None), ("slice", None, None),
                    ("slice", 0, 1), ("slice", 1, None), ("slice", None, -1), ("slice", 0, 2),
                ]
            )
            return e, True
        if c == "pushlit":
            return ("pushlit", r.choice(["a", "b", "", "ab"])), True
        raise AssertionError(c)

    def maybe_tag(self, e):
        if "tags" in self.f and self.r.random() < 0.15:
            return ("tag", self.r.choice(["tg", "t2", "lab"]), e)
        return e

    # ------------------------------------------------------------------ expressions
    def expr(self, depth, need, later, guarded):
        """Returns (expr, nullable). `need`: the expression must consume input whenever it succeeds.
        `guarded`: at least one character has been consumed since the enclosing rule was entered."""
        r = self.r
        if depth <= 0 or r.random() < 0.22:
            return self.term(need, later, guarded)
        ops = ["seq", "seq", "seq", "alt", "alt", "opt", "star", "plus", "rep", "rep", "and", "not"]
        if "stack" in self.f:
            ops += ["push", "push", "push"]
        if "groups" in self.f:
            ops.append("grp")
        if "bait" in self.f:
            ops += ["bait", "bait", "bait"]
        if "leak" in self.f:
            ops += ["leak", "leak"]
        c = r.choice(ops)
        if need and c in ("opt", "and", "not"):
            c = "seq"
        if c == "seq":
            n = r.randint(2, 3)
            items, nulls = [], []
            must = r.randrange(n) if need else -1
            g = guarded
            for i in range(n):
                e, nl = self.expr(depth - 1, i == must, later, g)
                items.append(e)
                nulls.append(nl)
                if not nl:
                    g = True
            return ("seq", tuple(items)), all(nulls)
        if c == "alt":
            n = r.randint(2, 3)
            items, nulls = [], []
            for _ in range(n):
                e, nl = self.expr(depth - 1, need, later, guarded)
                items.append(e)
                nulls.append(nl)
            return ("alt", tuple(items)), any(nulls)
        if c == "opt":
            e, _ = self.expr(depth - 1, False, later, guarded)
            return ("opt", e), True
        if c == "star":
            e, _ = self.expr(depth - 1, True, later, guarded)
            if need:
                return ("plus", e), False
            return ("star", e), True
        if c == "plus":
            e, _ = self.expr(depth - 1, True, later, guarded)
            return ("plus", e), False
        if c == "rep":
            e, _ = self.expr(depth - 1, True, later, guarded)
            if "zerorep" in self.f and not need and r.random() < 0.12:
                # zero-count repetitions: accepted by the library (pest itself rejects them), they match the empty
                # string; only for the checks that need no reference semantics (C01 C02 C06 C07 C13 C16)
                return r.choice([("exact", e, 0), ("max", e, 0), ("minmax", e, 0, 0)]), True
            kind = r.choice(["exact", "min", "max", "minmax"])
            if need and kind == "max":
                kind = "exact"
            if kind == "exact":
                return ("exact", e, r.randint(1, 3)), False
            if kind == "min":
                n = r.randint(1 if need else 0, 2)
                return ("min", e, n), n == 0
            if kind == "max":
                return ("max", e, r.randint(1, 3)), True
            m = r.randint(1 if need else 0, 2)
            return ("minmax", e, m, max(1, m + r.randint(0, 2))), m == 0
        if c in ("and", "not"):
            e, _ = self.expr(depth - 1, False, later, guarded)
            return (c, e), True
        if c == "push":
            e, nl = self.expr(depth - 1, need, later, guarded)
            return ("push", e), nl
        if c == "grp":
            e, nl = self.expr(depth - 1, need, later, guarded)
            e = ("grp", e)
            return self.maybe_tag(e), nl
        if c == "bait":
            self._later = later
            return self.bait(need)
        if c == "leak":
            return self.leak(need, later)
        raise AssertionError(c)

    def leak(self, need, later):
        """An attempt that produces pairs / stack entries and is then abandoned, under every kind of
        backtracking construct; optionally behind a fresh silent, normal or atomic helper rule."""
        r = self.r
        cands = [n for n in later if not self.nullable[n]]

        def pairmaker():
            if cands and r.random() < 0.8:
                return self.maybe_tag(("id", r.choice(cands)))
            return ("str", self.literal())

        items = [pairmaker()]
        if r.random() < 0.5:
            items.append(pairmaker())
        if "stack" in self.f and r.random() < 0.4:
            items.insert(r.randrange(len(items) + 1), r.choice([("push", ("str", "a")), ("pushlit", "b"), ("id", "DROP")]))
            if not any(x[0] in ("str",) or (x[0] == "id" and x[1] in cands) or x[0] == "tag" for x in items):
                items.insert(0, ("str", "a"))
        failer = r.choice([("str", "!"), ("str", "!"), ("range", "0", "1"), ("id", "EOI"), ("not", ("id", "ANY")), ("str", "ab")])
        x = ("seq", tuple(items + [failer]))
        # first element must consume so that repetitions over x make progress
        if x[1][0][0] in ("pushlit",) or (x[1][0][0] == "id" and x[1][0][1] == "DROP"):
            x = ("seq", (("str", "a"),) + x[1])
        how = r.random()
        if how < 0.45:
            mod = r.choice(["_", "_", "", "@", "$"] if "atomic" in self.f else ["_", "_", ""])
            name = "x%d__" % len(self.extra)
            self.extra.append((name, mod, x))
            self.nullable[name] = False
            x = ("id", name)
        elif how < 0.6:
            x = ("grp", x)
        k = r.choice(["opt", "opt", "star", "max", "minmax0", "alt", "alt", "not", "and", "plus-alt"])
        if need and k not in ("alt", "plus-alt"):
            k = "alt"
        if k == "opt":
            return ("opt", x), True
        if k == "star":
            return ("star", x), True
        if k == "max":
            return ("max", x, r.randint(1, 2)), True
        if k == "minmax0":
            return ("minmax", x, 0, r.randint(1, 2)), True
        if k == "not":
            return ("not", x), True
        if k == "and":
            return ("and", x), True
        fallback, nl = self.term(need, later, False)
        if k == "alt":
            return ("alt", (x, fallback)), nl
        return ("alt", (("plus", x), fallback)), nl

    def bait(self, need):
        """Shapes the optimizer passes look for."""
        r = self.r
        k = r.choice(["skip", "skip", "litchoice", "litchoice", "charchoice", "charchoice", "grouprep"])
        if k == "skip":
            n = r.randint(1, 3)
            stops = [("str", r.choice(["a", "b", "ab", "#", " ", "*/", "\n", "ba"])) for _ in range(n)]
            if r.random() < 0.2 and self.names_silent_lits:
                stops.append(("id", r.choice(self.names_silent_lits)))
            if r.random() < 0.12:
                # the stop is a silent rule whose own body is a skip-until shape
                name = "x%d__" % len(self.extra)
                self.extra.append((name, "_", ("star", ("grp", ("seq", (("not", ("str", r.choice(["a", "b"]))), ("id", "ANY")))))))
                self.nullable[name] = True
                stops = [("id", name)]
                n = 1
            inner = stops[0] if n == 1 and r.random() < 0.5 else ("grp", ("alt", tuple(stops))) if len(stops) > 1 else ("grp", stops[0])
            body = ("grp", ("seq", (("not", inner), ("id", "ANY"))))
            if need:
                return ("plus", body), False
            return ("star", body), True
        if k == "litchoice":
            pool = ["a", "ab", "abc", "b", "ba", "A", "aB", "a+", "[", "]", "-", "^", "\\", ".", "é"]
            n = r.randint(2, 4)
            alts = []
            for _ in range(n):
                lit = r.choice(pool)
                alts.append(("ci", lit) if r.random() < 0.25 and lit.isascii() else ("str", lit))
            return ("alt", tuple(alts)), False
        if k == "charchoice":
            n = r.randint(2, 4)
            alts = []
            for _ in range(n):
                x = r.random()
                if x < 0.4:
                    alts.append(self.range_())
                elif x < 0.7:
                    alts.append(("str", r.choice(["a", "b", "]", "-", "^", "\\", "[", "A", "z"])))
                elif x < 0.8:
                    alts.append(("ci", r.choice(["a", "b", "k", "s"])))
                else:
                    alts.append(self.char_rule())
            return ("alt", tuple(alts)), False
        # (e)+ / (e){n} over groups, possibly tagged and with a pair-producing rule inside
        first = ("str", r.choice(["a", "b"]))
        cands = [nm for nm in getattr(self, "_later", []) if not self.nullable.get(nm, True)]
        if cands and r.random() < 0.6:
            first = ("id", r.choice(cands))
        e = ("grp", ("seq", (first, ("opt", ("str", r.choice(["b", "x"]))))))
        rep = ("plus", e) if r.random() < 0.5 else ("exact", e, r.randint(2, 3))
        if "tags" in self.f and r.random() < 0.5:
            if r.random() < 0.5:
                return ("tag", r.choice(["tg", "t2"]), rep), False  # #tag = (e)+  : one term
            return (rep[0], ("tag", r.choice(["tg", "t2"]), e)) + rep[2:], False  # (#tag = (e))+
        return rep, False

    # ------------------------------------------------------------------ grammars
    def grammar(self):
        """Returns a list of rules [(name, modifier, expr)] - well formed by construction."""
        r = self.r
        n = r.randint(1, self.max_rules)
        self.names = ["r%d" % i for i in range(n)]
        self.names_silent_lits = []
        mods = ["", "", "", "_"]
        if "atomic" in self.f:
            mods += ["@", "$", "!", "@"]
        built = {}
        for i in reversed(range(n)):
            later = self.names[i + 1 :]
            e, nl = self.expr(r.randint(1, self.max_depth), False, later, False)
            self.nullable[self.names[i]] = nl
            mod = r.choice(mods)
            built[self.names[i]] = (mod, e)
            if mod == "_" and e[0] == "str" and e[1]:
                self.names_silent_lits.append(self.names[i])
        rules = [(nm, built[nm][0], built[nm][1]) for nm in self.names] + list(self.extra)
        if "trivia" in self.f:
            w = r.random()
            extra = []
            if w < 0.75:
                body = r.choice(WS_BODIES)
                extra.append(("WHITESPACE", r.choice(["_", "_", "_", ""]), body))
                if body == ("id", "ws__"):
                    extra.append(("ws__", "_", r.choice([("str", " "), ("alt", (("str", " "), ("str", "\t")))])))
            if r.random() < 0.45 or w >= 0.9:
                extra.append(("COMMENT", r.choice(["_", "_", ""]), r.choice(COMMENT_BODIES)))
            if extra and r.random() < 0.25:
                # an explicit reference to a trivia rule (its body must still be matched atomically)
                tname = r.choice([x[0] for x in extra if x[0] in ("WHITESPACE", "COMMENT")])
                i = r.randrange(len(rules))
                nm, md, ex = rules[i]
                ref = ("id", tname)
                k = r.randrange(3)
                if k == 0:
                    ex = ("seq", (ex, ("opt", ref)))
                elif k == 1:
                    ex = ("seq", (ref, ex))
                else:
                    ex = ("alt", (("seq", (ref, ("str", "a"))), ex))
                rules[i] = (nm, md, ex)
            rules = extra + rules if r.random() < 0.5 else rules + extra
        if "wildtrivia" in self.f and r.random() < 0.15:
            # trivia rules whose bodies produce pairs or touch the stack: the statements do not define what
            # a parse yields then, but every execution mode must still agree (C01, C02, C06, C07, C16)
            original = rules
            rules = [x for x in rules if x[0] not in ("WHITESPACE", "COMMENT", "ws__")]
            k = r.randrange(4)
            if k == 0:
                body = r.choice([("str", "#"), ("seq", (("str", "#"), ("opt", ("str", "a")))), ("seq", (("str", "#"), ("str", "a")))])
                rules += [("COMMENT", "_", ("seq", (("id", "xw__"), ("str", "!")))), ("xw__", r.choice(["$", "!", "!", ""]), body)]
            elif k == 1:
                rules += [("WHITESPACE", "_", ("push", ("str", " ")))]
            elif k == 2:
                rules += [("WHITESPACE", r.choice(["_", ""]), ("seq", (("str", " "), ("opt", ("id", "PEEK"))))),
                          ("COMMENT", "_", ("seq", (("pushlit", "c"), ("str", "#"))))]
            else:
                rules += [("WHITESPACE", "", ("alt", (("id", "xw__"), ("str", "\t")))), ("xw__", "", ("str", " "))]
            defined = {x[0] for x in rules}
            if any(n[0] == "id" and n[1] in ("WHITESPACE", "COMMENT", "ws__") and n[1] not in defined
                   for _, _, e in rules for n in walk(e)):
                rules = original  # an explicit reference to a removed trivia rule: keep the ordinary ones
        return rules


# ----------------------------------------------------------------------------- inputs


def alphabet_of(rules) -> str:
    chars: list[str] = []

    def add(s):
        for c in s:
            if c not in chars:
                chars.append(c)

    for _, _, e in rules:
        for n in walk(e):
            if n[0] == "str" or n[0] == "pushlit":
                add(n[1])
            elif n[0] == "ci":
                add(n[1].lower())
                add(n[1].upper())
                # characters that full Unicode case folding (but not pest's ASCII folding) maps onto ASCII
                if "k" in n[1].lower():
                    add("\u212a")
                if "s" in n[1].lower():
                    add("\u017f")
            elif n[0] == "range":
                add(n[1])
                add(n[2])
                mid = chr((ord(n[1]) + ord(n[2])) // 2)
                add(mid)
            elif n[0] == "id" and n[1] in CHAR_SAMPLES:
                add(CHAR_SAMPLES[n[1]][:3])
    if not chars:
        chars = ["a"]
    return "".join(chars)


class Deriver:
    """Random derivation of a (mostly) matching input from a grammar."""

    def __init__(self, rng, rules):
        self.r = rng
        self.rules = {n: (m, e) for n, m, e in rules}
        self.stack: list[str] = []
        self.calls = 0
        ws = self.rules.get("WHITESPACE")
        cm = self.rules.get("COMMENT")
        self.trivia_samples: list[str] = []
        if ws:
            self.trivia_samples += [self._plain(ws[1]) or " "] * 2
        if cm:
            self.trivia_samples.append(self._plain(cm[1]) or "#")

    def _plain(self, e) -> str:
        saved, self.stack = self.stack, []
        try:
            return self.der(e, "A", 3)
        finally:
            self.stack = saved

    def trivia(self, atom) -> str:
        if atom != "N" or not self.trivia_samples or self.r.random() > 0.35:
            return ""
        out = self.r.choice(self.trivia_samples)
        if self.r.random() < 0.2:
            out += self.r.choice(self.trivia_samples)
        return out

    def der(self, e, atom, fuel) -> str:
        # bounded: stack-driven grammars (PUSH(PEEK_ALL ...) in repetitions) double the text at every step
        out = self._der(e, atom, fuel)
        return out if len(out) <= 40 else out[:40]

    def _der(self, e, atom, fuel) -> str:
        r = self.r
        k = e[0]
        if k == "str":
            return e[1]
        if k == "ci":
            return "".join(c.upper() if r.random() < 0.5 else c.lower() for c in e[1])
        if k == "range":
            lo, hi = ord(e[1]), ord(e[2])
            if lo > hi:
                lo, hi = hi, lo
            return chr(r.choice([lo, hi, r.randint(lo, hi)]))
        if k == "id":
            name = e[1]
            if name in self.rules:
                self.calls += 1
                if fuel <= 0 or self.calls > 60:
                    return ""
                mod, body = self.rules[name]
                inner = atom
                if name in ("WHITESPACE", "COMMENT") or mod == "@":
                    inner = "A"
                elif mod == "$":
                    inner = "C"
                elif mod == "!":
                    inner = "N"
                return self.der(body, inner, fuel - 1)
            if name in CHAR_SAMPLES:
                return r.choice(CHAR_SAMPLES[name])
            if name in ("SOI", "EOI"):
                return ""
            if name == "PEEK":
                return self.stack[-1] if self.stack else ""
            if name == "POP":
                return self.stack.pop() if self.stack else ""
            if name == "DROP":
                if self.stack:
                    self.stack.pop()
                return ""
            if name in ("PEEK_ALL", "POP_ALL"):
                out = "".join(reversed(self.stack))
                if name == "POP_ALL":
                    self.stack.clear()
                return out
            return ""
        if k == "seq":
            parts = []
            for i, x in enumerate(e[1]):
                if i:
                    parts.append(self.trivia(atom))
                parts.append(self.der(x, atom, fuel))
            return "".join(parts)
        if k == "alt":
            return self.der(r.choice(e[1]), atom, fuel)
        if k == "opt":
            return self.der(e[1], atom, fuel) if r.random() < 0.5 else ""
        if k in ("star", "plus", "exact", "min", "max", "minmax"):
            if k == "star":
                n = r.choice([0, 1, 1, 2, 3])
            elif k == "plus":
                n = r.choice([1, 1, 2, 3])
            elif k == "exact":
                n = e[2]
            elif k == "min":
                n = e[2] + r.choice([0, 0, 1, 2])
            elif k == "max":
                n = r.randint(0, e[2])
            else:
                n = r.randint(e[2], max(e[2], e[3]))
            parts = []
            for i in range(n):
                if i:
                    parts.append(self.trivia(atom))
                parts.append(self.der(e[1], atom, fuel))
            if n and r.random() < 0.15:
                parts.append(self.trivia(atom))  # trailing trivia after the last iteration
            return "".join(parts)
        if k in ("and", "not"):
            return ""
        if k == "push":
            s = self.der(e[1], atom, fuel)
            self.stack.append(s)
            return s
        if k == "pushlit":
            self.stack.append(e[1])
            return ""
        if k == "slice":
            return "".join(self.stack[slice(e[1], e[2])])
        if k == "grp":
            return self.der(e[1], atom, fuel)
        if k == "tag":
            return self.der(e[2], atom, fuel)
        raise ValueError(k)


def mutate(rng, s: str, alphabet: str) -> str:
    if not s:
        return rng.choice(alphabet)
    k = rng.randrange(6)
    i = rng.randrange(len(s))
    if k == 0:
        return s[:i] + s[i + 1 :]
    if k == 1:
        return s[:i] + rng.choice(alphabet) + s[i:]
    if k == 2:
        return s[:i] + rng.choice(alphabet) + s[i + 1 :]
    if k == 3:
        return s[:i]
    if k == 4:
        return s + rng.choice(alphabet)
    j = rng.randrange(i, len(s))
    return s[:j] + s[i:j] + s[j:]


def inputs_for(rng, rules, start_rules, n=10, maxlen=16) -> list[str]:
    """`n` distinct inputs: derivations, their prefixes/mutations, random strings, the empty input."""
    alpha = alphabet_of(rules) + "~"
    out = [""]
    seen = {""}

    def add(s):
        s = s[:maxlen]
        if s not in seen:
            seen.add(s)
            out.append(s)

    tries = 0
    while len(out) < n and tries < 6 * n:
        tries += 1
        x = rng.random()
        if x < 0.5 and start_rules:
            d = Deriver(rng, rules)
            s = d.der(("id", rng.choice(start_rules)), "N", 6)
            add(s)
            if rng.random() < 0.4:
                add(mutate(rng, s, alpha))
            if s and rng.random() < 0.25:
                add(s[: rng.randrange(len(s))])
        elif x < 0.8:
            add("".join(rng.choice(alpha) for _ in range(rng.randint(1, 8))))
        else:
            base = rng.choice(out)
            add(mutate(rng, base, alpha))
    return out[:n]
