"""pest's meta-grammar, transcribed by hand from tests/grammars/meta.pest into the harness AST and run by the
reference evaluator: the oracle for "is this text a syntactically valid pest v2 grammar" and "which
structure does it denote" (C10, C08, facts about the bundled grammars).

Self-check (`selfcheck()`): parsing the file tests/grammars/meta.pest with the transcription must reproduce
the transcription (fix-point), and every bundled .pest file must be recognised.
"""

from __future__ import annotations

import glob
import os

from pestverif import refpeg
from pestverif.runner import repo_root


def S(*x):
    return ("seq", tuple(x))


def A(*x):
    return ("alt", tuple(x))


def L(s):
    return ("str", s)


def I(n):  # noqa: E743
    return ("id", n)


def star(e):
    return ("star", e)


def opt(e):
    return ("opt", e)


def plus(e):
    return ("plus", e)


def NOT(e):
    return ("not", e)


def rng(a, b):
    return ("range", a, b)


META = [
    ("grammar_rules", "_", S(I("SOI"), star(I("grammar_doc")), star(I("grammar_rule")), I("EOI"))),
    ("grammar_rule", "", A(
        S(I("identifier"), I("assignment_operator"), opt(I("modifier")), I("opening_brace"), I("expression"),
          I("closing_brace")),
        I("line_doc"))),
    ("assignment_operator", "", L("=")),
    ("opening_brace", "", L("{")),
    ("closing_brace", "", L("}")),
    ("opening_paren", "", L("(")),
    ("closing_paren", "", L(")")),
    ("opening_brack", "", L("[")),
    ("closing_brack", "", L("]")),
    ("modifier", "_", A(I("silent_modifier"), I("atomic_modifier"), I("compound_atomic_modifier"),
                        I("non_atomic_modifier"))),
    ("silent_modifier", "", L("_")),
    ("atomic_modifier", "", L("@")),
    ("compound_atomic_modifier", "", L("$")),
    ("non_atomic_modifier", "", L("!")),
    ("tag_id", "@", S(L("#"), A(L("_"), I("alpha")), star(A(L("_"), I("alpha_num"))))),
    ("node_tag", "_", S(I("tag_id"), I("assignment_operator"))),
    ("expression", "", S(opt(I("choice_operator")), I("term"), star(S(I("infix_operator"), I("term"))))),
    ("term", "", S(opt(I("node_tag")), star(I("prefix_operator")), I("node"), star(I("postfix_operator")))),
    ("node", "_", A(S(I("opening_paren"), I("expression"), I("closing_paren")), I("terminal"))),
    ("terminal", "_", A(I("_push_literal"), I("_push"), I("peek_slice"), I("identifier"), I("string"),
                        I("insensitive_string"), I("range"))),
    ("prefix_operator", "_", A(I("positive_predicate_operator"), I("negative_predicate_operator"))),
    ("infix_operator", "_", A(I("sequence_operator"), I("choice_operator"))),
    ("postfix_operator", "_", A(I("optional_operator"), I("repeat_operator"), I("repeat_once_operator"),
                                I("repeat_exact"), I("repeat_min"), I("repeat_max"), I("repeat_min_max"))),
    ("positive_predicate_operator", "", L("&")),
    ("negative_predicate_operator", "", L("!")),
    ("sequence_operator", "", L("~")),
    ("choice_operator", "", L("|")),
    ("optional_operator", "", L("?")),
    ("repeat_operator", "", L("*")),
    ("repeat_once_operator", "", L("+")),
    ("repeat_exact", "", S(I("opening_brace"), I("number"), I("closing_brace"))),
    ("repeat_min", "", S(I("opening_brace"), I("number"), I("comma"), I("closing_brace"))),
    ("repeat_max", "", S(I("opening_brace"), I("comma"), I("number"), I("closing_brace"))),
    ("repeat_min_max", "", S(I("opening_brace"), I("number"), I("comma"), I("number"), I("closing_brace"))),
    ("number", "@", plus(rng("0", "9"))),
    ("integer", "@", A(I("number"), S(L("-"), star(L("0")), rng("1", "9"), opt(I("number"))))),
    ("comma", "", L(",")),
    ("_push", "", S(L("PUSH"), I("opening_paren"), I("expression"), I("closing_paren"))),
    ("_push_literal", "", S(L("PUSH_LITERAL"), I("opening_paren"), I("string"), I("closing_paren"))),
    ("peek_slice", "", S(L("PEEK"), I("opening_brack"), opt(I("integer")), I("range_operator"),
                         opt(I("integer")), I("closing_brack"))),
    ("identifier", "@", S(NOT(L("PUSH")), A(L("_"), I("alpha")), star(A(L("_"), I("alpha_num"))))),
    ("alpha", "_", A(rng("a", "z"), rng("A", "Z"))),
    ("alpha_num", "_", A(I("alpha"), rng("0", "9"))),
    ("string", "$", S(I("quote"), I("inner_str"), I("quote"))),
    ("insensitive_string", "", S(L("^"), I("string"))),
    ("range", "", S(I("character"), I("range_operator"), I("character"))),
    ("character", "$", S(I("single_quote"), I("inner_chr"), I("single_quote"))),
    ("inner_str", "@", S(star(S(NOT(A(L('"'), L("\\"))), I("ANY"))), opt(S(I("escape"), I("inner_str"))))),
    ("inner_chr", "@", A(I("escape"), I("ANY"))),
    ("escape", "@", S(L("\\"), A(L('"'), L("\\"), L("r"), L("n"), L("t"), L("0"), L("'"), I("code"),
                                 I("unicode")))),
    ("code", "@", S(L("x"), ("exact", I("hex_digit"), 2))),
    ("unicode", "@", S(L("u"), I("opening_brace"), ("minmax", I("hex_digit"), 2, 6), I("closing_brace"))),
    ("hex_digit", "@", A(rng("0", "9"), rng("a", "f"), rng("A", "F"))),
    ("quote", "", L('"')),
    ("single_quote", "", L("'")),
    ("range_operator", "", L("..")),
    ("newline", "_", A(L("\n"), L("\r\n"))),
    ("WHITESPACE", "_", A(L(" "), L("\t"), I("newline"))),
    ("line_comment", "_", S(L("//"), NOT(A(L("/"), L("!"))), star(S(NOT(I("newline")), I("ANY"))))),
    ("block_comment", "_", S(L("/*"), star(A(I("block_comment"), S(NOT(L("*/")), I("ANY")))), L("*/"))),
    ("COMMENT", "_", A(I("block_comment"), I("line_comment"))),
    ("space", "_", A(L(" "), L("\t"))),
    ("grammar_doc", "$", S(L("//!"), opt(I("space")), I("inner_doc"))),
    ("line_doc", "$", S(L("///"), opt(I("space")), I("inner_doc"))),
    ("inner_doc", "@", star(S(NOT(I("newline")), I("ANY")))),
]
META_MAP = {n: (m, e) for n, m, e in META}


def parse_tree(text: str, budget: int = 20_000_000):
    """The meta-grammar's parse tree of `text` (refpeg pairs) or None if `text` is not a valid grammar."""
    out, _ = refpeg.parse(META_MAP, "grammar_rules", text, 0, budget=budget)
    if out[0] != "ok":
        return None
    return out[1]


def recognise(text: str) -> bool:
    return parse_tree(text) is not None


# ----------------------------------------------------------------------------- tree -> AST

_MODS = {
    "silent_modifier": "_",
    "atomic_modifier": "@",
    "compound_atomic_modifier": "$",
    "non_atomic_modifier": "!",
}


def unescape(raw: str) -> str:
    """Decode the escapes pest defines: \\" \\\\ \\r \\n \\t \\0 \\' \\xHH \\u{H..}."""
    out = []
    i = 0
    while i < len(raw):
        c = raw[i]
        if c != "\\":
            out.append(c)
            i += 1
            continue
        d = raw[i + 1]
        if d in '"\\\'':
            out.append(d)
            i += 2
        elif d == "n":
            out.append("\n")
            i += 2
        elif d == "r":
            out.append("\r")
            i += 2
        elif d == "t":
            out.append("\t")
            i += 2
        elif d == "0":
            out.append("\0")
            i += 2
        elif d == "x":
            out.append(chr(int(raw[i + 2 : i + 4], 16)))
            i += 4
        elif d == "u":
            j = raw.index("}", i)
            out.append(chr(int(raw[i + 3 : j], 16)))
            i = j + 1
        else:
            raise ValueError(f"bad escape in {raw!r}")
    return "".join(out)


class Builder:
    """Builds harness AST (with source spans) from the meta-grammar's parse tree."""

    def __init__(self, text: str):
        self.text = text
        self.spans: dict[int, tuple[int, int]] = {}  # id(node) -> span  (per term / expression)
        self.sites: list[dict] = []  # every expression / term with its span, for the C08 rewrites

    def s(self, p) -> str:
        return self.text[p[1] : p[2]]

    def string(self, p) -> str:  # p = string pair: quote inner_str quote
        return unescape(self.s(p[3][1]))

    def grammar(self, pairs):
        """Returns (grammar_docs, rules) where rules = [(name, modifier, expr, docs, span)]."""
        gdocs, rules, pending = [], [], []
        for p in pairs:
            if p[0] == "grammar_doc":
                gdocs.append(self.s(p[3][0]) if p[3] else "")
            elif p[0] == "grammar_rule":
                kids = p[3]
                if kids[0][0] == "line_doc":
                    pending.append(self.s(kids[0][3][0]) if kids[0][3] else "")
                    continue
                name = self.s(kids[0])
                mod = ""
                i = 2
                if kids[i][0] in _MODS:
                    mod = _MODS[kids[i][0]]
                    i += 1
                expr_pair = kids[i + 1]
                e = self.expression(expr_pair, name)
                rules.append((name, mod, e, tuple(pending), (p[1], p[2])))
                pending = []
        return gdocs, rules, pending

    def expression(self, p, rule):
        kids = list(p[3])
        if kids and kids[0][0] == "choice_operator":
            kids = kids[1:]
        terms, ops = [], []
        for k in kids:
            if k[0] == "term":
                terms.append((self.term(k, rule), (k[1], k[2])))
            else:
                ops.append(k[0])
        # precedence: ~ binds tighter than |
        alts, cur = [], [terms[0]]
        for op, t in zip(ops, terms[1:]):
            if op == "sequence_operator":
                cur.append(t)
            else:
                alts.append(cur)
                cur = [t]
        alts.append(cur)

        def mkseq(items):
            if len(items) == 1:
                return items[0][0]
            return ("seq", tuple(x[0] for x in items))

        seqs = [mkseq(a) for a in alts]
        e = seqs[0] if len(seqs) == 1 else ("alt", tuple(seqs))
        self.sites.append({"kind": "expression", "rule": rule, "span": (p[1], p[2]),
                           "runs": [[t[1] for t in a] for a in alts]})
        return e

    def term(self, p, rule):
        kids = list(p[3])
        tag = None
        i = 0
        if kids[i][0] == "tag_id":
            tag = self.s(kids[i])[1:]
            i += 2  # tag_id, assignment_operator
        prefixes = []
        while kids[i][0] in ("positive_predicate_operator", "negative_predicate_operator"):
            prefixes.append("and" if kids[i][0].startswith("positive") else "not")
            i += 1
        node_start = kids[i][1]
        if kids[i][0] == "opening_paren":
            node = ("grp", self.expression(kids[i + 1], rule))
            node_end = kids[i + 2][2]
            i += 3
        else:
            node = self.terminal(kids[i], rule)
            node_end = kids[i][2]
            i += 1
        self.sites.append({"kind": "node", "rule": rule, "span": (node_start, node_end)})
        for k in kids[i:]:
            n = k[0]
            if n == "optional_operator":
                node = ("opt", node)
            elif n == "repeat_operator":
                node = ("star", node)
            elif n == "repeat_once_operator":
                node = ("plus", node)
            elif n == "repeat_exact":
                node = ("exact", node, int(self.s(k[3][1])))
            elif n == "repeat_min":
                node = ("min", node, int(self.s(k[3][1])))
            elif n == "repeat_max":
                node = ("max", node, int(self.s(k[3][2])))
            elif n == "repeat_min_max":
                node = ("minmax", node, int(self.s(k[3][1])), int(self.s(k[3][3])))
            else:
                raise ValueError(n)
        for pre in reversed(prefixes):
            node = (pre, node)
        if tag is not None:
            node = ("tag", tag, node)
        self.sites.append({"kind": "term", "rule": rule, "span": (p[1], p[2]), "tagged": tag is not None})
        return node

    def terminal(self, k, rule):
        n = k[0]
        if n == "identifier":
            return ("id", self.s(k))
        if n == "string":
            return ("str", self.string(k))
        if n == "insensitive_string":
            return ("ci", self.string(k[3][0]))
        if n == "range":
            lo = unescape(self.s(k[3][0][3][1]))
            hi = unescape(self.s(k[3][2][3][1]))
            return ("range", lo, hi)
        if n == "_push":
            return ("push", self.expression(k[3][1], rule))
        if n == "_push_literal":
            return ("pushlit", self.string(k[3][1]))
        if n == "peek_slice":
            a = b = None
            seen_op = False
            for c in k[3]:
                if c[0] == "range_operator":
                    seen_op = True
                elif c[0] == "integer":
                    if seen_op:
                        b = int(self.s(c))
                    else:
                        a = int(self.s(c))
            return ("slice", a, b)
        raise ValueError(n)


def parse_grammar(text: str):
    """None if invalid, else dict(docs, rules=[(name, mod, expr, docs, span)], trailing_docs, sites)."""
    tree = parse_tree(text)
    if tree is None:
        return None
    b = Builder(text)
    gdocs, rules, pending = b.grammar(tree)
    return {"docs": gdocs, "rules": rules, "trailing_docs": pending, "sites": b.sites}


def grammar_facts(text: str) -> dict:
    """names / silent / tags of a bundled grammar (for the C06 predicates)."""
    from pestverif import gast

    g = parse_grammar(text)
    if g is None:
        raise ValueError("bundled grammar not recognised by the meta-grammar")
    names = [r[0] for r in g["rules"]]
    silent = [r[0] for r in g["rules"] if r[1] == "_"]
    tags = sorted({n[1] for r in g["rules"] for n in gast.walk(r[2]) if n[0] == "tag"})
    return {"names": [n for n in names if n not in silent] + ["EOI"], "silent": silent, "tags": tags,
            "rule_names": names}


# ----------------------------------------------------------------------------- self check


def normalise(e):
    """Remove untagged groups, flatten nested same-operator seq/alt (meaning preserving)."""
    from pestverif.gast import children, with_children

    k = e[0]
    if k == "grp":
        return normalise(e[1])
    e = with_children(e, [normalise(c) for c in children(e)])
    if k in ("seq", "alt"):
        items = []
        for c in e[1]:
            if c[0] == k:
                items.extend(c[1])
            else:
                items.append(c)
        return (k, tuple(items))
    return e


def bundled_grammar_files() -> list[str]:
    files = sorted(glob.glob(repo_root() + "/tests/grammars/*.pest")) + sorted(glob.glob(repo_root() + "/examples/*/*.pest"))
    return files


def selfcheck() -> str | None:
    """None if the transcription is a fix-point of meta.pest and recognises all bundled grammars."""
    path = repo_root() + "/tests/grammars/meta.pest"
    if not os.path.exists(path):
        return "tests/grammars/meta.pest is missing"
    text = open(path, encoding="utf-8").read()
    g = parse_grammar(text)
    if g is None:
        return "the transcribed meta-grammar does not recognise tests/grammars/meta.pest"
    got = [(n, m, normalise(e)) for n, m, e, _d, _s in g["rules"]]
    want = [(n, m, normalise(e)) for n, m, e in META]
    if got != want:
        for a, b in zip(got, want):
            if a != b:
                return f"transcription differs from meta.pest at rule {b[0]}: file {a} vs transcription {b}"
        return f"transcription has {len(want)} rules, meta.pest has {len(got)}"
    for f in bundled_grammar_files():
        if not recognise(open(f, encoding="utf-8").read()):
            return f"bundled grammar {f} is not recognised by the meta-grammar"
    return None
