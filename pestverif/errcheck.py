"""C13 predicates on a PestParsingError. Runs inside a worker (needs the live exception)."""

from __future__ import annotations

import re

_HDR = re.compile(r"^\s*-> (.*?) ?(\d+):(-?\d+)$")
_BASE: list = []


_EXOTIC = re.compile("\r(?!\n)|[\x0b\x0c\x1c\x1d\x1e\x85\u2028\u2029]")


def _where_lf(text, p):
    sol = text.rfind("\n", 0, p) + 1
    eol = text.find("\n", p)
    return 1 + text.count("\n", 0, p), p - sol, (text[sol:] if eol == -1 else text[sol:eol])


def _where_splitlines(text, p):
    start = 0
    lines = text.splitlines(keepends=True)
    for i, ln in enumerate(lines):
        if p < start + len(ln):
            return i + 1, p - start, ln
        start += len(ln)
    if lines and lines[-1] != text.splitlines()[-1]:
        return len(lines) + 1, 0, ""  # after a trailing line break: on the empty last line
    if lines:
        return len(lines), p - (start - len(lines[-1])), lines[-1]
    return 1, 0, ""


def column_base():
    """0 or 1: the column error_context() reports for offset 0 of a non-empty one-line text (the base the
    implementation uses); None if it is neither, in which case both bases are tolerated."""
    if not _BASE:
        from pest.exceptions import error_context

        try:
            b = error_context("x", 0)[2]
        except Exception:  # noqa: BLE001
            b = None
        _BASE.append(b if b in (0, 1) else None)
    return _BASE[0]


def check_error(err, call, info) -> list[str]:
    """Problems with the failure report (empty list = fine). info: {"rule_names": [...]}."""
    import pest
    from pest.exceptions import error_context

    if not isinstance(err, Exception):
        return []
    rule, text, start_pos = call
    problems: list[str] = []

    def bad(msg):
        if len(problems) < 5:
            problems.append(msg)

    st = err.state
    p = st.furthest_pos
    if not (p == -1 or start_pos <= p <= len(text)):
        bad(f"furthest_pos {p} outside start_pos..len ({start_pos}..{len(text)})")
    allowed = set(info["rule_names"]) | set(pest.Parser.BUILTIN)
    for kind, table in (("expected", st.furthest_expected), ("unexpected", st.furthest_unexpected)):
        for name in table:
            if name not in allowed:
                bad(f"{kind} rule name {name!r} is neither a rule of the grammar nor a built-in")
    rendered = None
    try:
        rendered = str(err)
        detailed = err.detailed_message()
        if not rendered or not detailed:
            bad("empty message")
        if not isinstance(rendered, str):
            bad("str() did not return a string")
    except Exception as e2:  # noqa: BLE001
        bad(f"rendering raised {type(e2).__name__}: {e2}")
    if 0 <= p <= len(text) and _EXOTIC.search(text):
        # Which characters besides LF / CR LF break lines is not specified (python-pest follows str.splitlines: lone
        # CR, VT, FF, FS, GS, RS, NEL, LS, PS): for such texts the position must be right under the LF reading OR
        # under the splitlines reading.
        readings = [_where_lf(text, p), _where_splitlines(text, p)]
        try:
            line, lineno, col = error_context(text, p)
            base = column_base()
            ok = any(lineno == wl and (col - wc in ((0, 1) if base is None else (base,))) and line.rstrip() == ws.rstrip()
                     for wl, wc, ws in readings)
            if not ok:
                bad(f"error_context says line {lineno} column {col} {line!r} for offset {p}; neither the LF reading "
                    f"{readings[0]} nor the splitlines reading {readings[1]} (line, 0-based column, source line)")
        except Exception as e2:  # noqa: BLE001
            bad(f"error_context raised {type(e2).__name__}: {e2}")
    elif 0 <= p <= len(text):
        want_line = 1 + text.count("\n", 0, p)
        sol = text.rfind("\n", 0, p) + 1
        want_col0 = p - sol
        eol = text.find("\n", p)
        want_src = text[sol:] if eol == -1 else text[sol:eol]
        base = column_base()
        cols = (want_col0, want_col0 + 1) if base is None else (want_col0 + base,)
        try:
            line, lineno, col = error_context(text, p)
            if lineno != want_line:
                bad(f"error_context line {lineno}, offset {p} is on line {want_line}")
            elif col not in cols:
                bad(f"error_context column {col}, offset {p} is at column {want_col0} (0-based)")
            if line.rstrip() != want_src.rstrip():
                bad(f"error_context shows line {line!r}, the line of offset {p} is {want_src!r}")
        except Exception as e2:  # noqa: BLE001
            bad(f"error_context raised {type(e2).__name__}: {e2}")
        if rendered:
            lines = rendered.split("\n")
            hdr = next((m for m in (_HDR.match(ln) for ln in lines) if m), None)
            if hdr is None:
                bad("message has no '-> rule_stack line:col' header")
            else:
                lineno, col = int(hdr.group(2)), int(hdr.group(3))
                if lineno != want_line:
                    bad(f"message says line {lineno}, offset {p} is on line {want_line}")
                elif col not in cols:
                    bad(f"message says column {col}, offset {p} is at column {want_col0} (0-based)")
                src = next((ln for ln in lines if ln.startswith(f"{lineno} | ")), None)
                if src is None:
                    if want_src.strip():
                        bad("message does not show the source line")
                elif "\n" not in want_src and src[len(f"{lineno} | ") :].rstrip() != want_src.rstrip():
                    bad(f"message shows source line {src!r}, the line of offset {p} is {want_src!r}")
    return problems
