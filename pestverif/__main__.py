import sys

from pestverif.runner import main

sys.exit(main(sys.argv[1:]))
