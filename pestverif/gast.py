"""Grammar AST used by the harness (independent of python-pest's Expression classes).

Expressions are tuples (hashable, JSON friendly after `to_json`):

    ('str', s) ('ci', s) ('range', lo, hi) ('id', name)
    ('seq', (e, ...)) ('alt', (e, ...))
    ('opt', e) ('star', e) ('plus', e) ('exact', e, n) ('min', e, n) ('max', e, n) ('minmax', e, m, n)
    ('and', e) ('not', e) ('push', e) ('pushlit', s) ('slice', a, b)
    ('tag', name, e)   #name = e      ('grp', e)   explicit parentheses

Built-ins and the stack keywords PEEK / POP / DROP / PEEK_ALL / POP_ALL are ('id', NAME), as in pest's
meta-grammar. A grammar is a list of rules `(name, modifier, expr)` with modifier in '', '_', '@', '$', '!'.
"""

from __future__ import annotations

POSTFIX = ("opt", "star", "plus", "exact", "min", "max", "minmax")
PREFIX = ("and", "not")
STACK_IDS = ("PEEK", "POP", "DROP", "PEEK_ALL", "POP_ALL")
SPECIAL_IDS = ("ANY", "SOI", "EOI", "NEWLINE")
ASCII_IDS = (
    "ASCII_DIGIT",
    "ASCII_NONZERO_DIGIT",
    "ASCII_BIN_DIGIT",
    "ASCII_OCT_DIGIT",
    "ASCII_HEX_DIGIT",
    "ASCII_ALPHA_LOWER",
    "ASCII_ALPHA_UPPER",
    "ASCII_ALPHA",
    "ASCII_ALPHANUMERIC",
    "ASCII",
)
UNICODE_IDS = ("LETTER", "UPPERCASE_LETTER", "LOWERCASE_LETTER", "NUMBER", "DECIMAL_NUMBER")
BUILTIN_IDS = frozenset(STACK_IDS + SPECIAL_IDS + ASCII_IDS + UNICODE_IDS)


def tup(x):
    """JSON (lists) -> AST (tuples)."""
    if isinstance(x, list):
        return tuple(tup(y) for y in x)
    return x


def to_json(x):
    if isinstance(x, tuple):
        return [to_json(y) for y in x]
    return x


def children(e):
    k = e[0]
    if k in ("seq", "alt"):
        return list(e[1])
    if k in POSTFIX or k in PREFIX or k in ("push", "grp"):
        return [e[1]]
    if k == "tag":
        return [e[2]]
    return []


def with_children(e, cs):
    k = e[0]
    if k in ("seq", "alt"):
        return (k, tuple(cs))
    if k in POSTFIX or k in PREFIX or k in ("push", "grp"):
        return (k, cs[0]) + tuple(e[2:])
    if k == "tag":
        return ("tag", e[1], cs[0])
    return e


def walk(e):
    yield e
    for c in children(e):
        yield from walk(c)


def size(e) -> int:
    return sum(1 for _ in walk(e))


def kinds(rules) -> set[str]:
    out: set[str] = set()
    for _, mod, e in rules:
        if mod:
            out.add("mod" + mod)
        for n in walk(e):
            out.add(n[1] if n[0] == "id" and n[1] in BUILTIN_IDS else n[0])
    return out


def rule_map(rules) -> dict:
    return {name: (mod, e) for name, mod, e in rules}


def strip(e):
    """Remove ('grp', e) and ('tag', n, e) wrappers (meaning-preserving for matching)."""
    k = e[0]
    if k == "grp":
        return strip(e[1])
    if k == "tag":
        return strip(e[2])
    return with_children(e, [strip(c) for c in children(e)])
