"""The six meaning-preserving rewrites of C08, as text splices driven by spans from the meta-grammar oracle."""

from __future__ import annotations

from pestverif import meta

NEVER = '"\\u{F8FF}never\\u{E000}"'
NEVER_TEXT = "never"
KINDS = ("parens", "reassoc", "extract", "dup", "seq-never", "not-never")


class RewriteError(Exception):
    """The harness produced a text the meta-grammar rejects (harness error, exit 2)."""


def sites_of(text):
    g = meta.parse_grammar(text)
    if g is None:
        raise RewriteError("grammar text not recognised by the meta-grammar")
    return g


def candidates(g, kind):
    """Splice candidates (start, end, rule) for a rewrite kind."""
    out = []
    if kind == "reassoc":
        for s in g["sites"]:
            if s["kind"] != "expression":
                continue
            runs = s["runs"]
            for run in runs:  # a ~-run
                if len(run) >= 3:
                    for i in range(len(run)):
                        for j in range(i + 1, len(run)):
                            if j - i + 1 < len(run):
                                out.append((run[i][0], run[j][1], s["rule"]))
            if len(runs) >= 3:  # the |-run
                for i in range(len(runs)):
                    for j in range(i + 1, len(runs)):
                        if j - i + 1 < len(runs):
                            out.append((runs[i][0][0], runs[j][-1][1], s["rule"]))
        return out
    for s in g["sites"]:
        if s["kind"] == "expression":
            # skip a leading choice operator: the span of the first term onwards
            start = s["runs"][0][0][0]
            out.append((start, s["span"][1], s["rule"]))
        else:
            out.append((s["span"][0], s["span"][1], s["rule"]))
    return out


def apply(text, kind, start, end, fresh_name):
    """Returns the rewritten text."""
    x = text[start:end]
    if kind in ("parens", "reassoc"):
        new = "(" + x + ")"
    elif kind == "dup":
        new = "((" + x + ") | (" + x + "))"
    elif kind == "seq-never":
        new = "(((" + x + ") ~ " + NEVER + ") | (" + x + "))"
    elif kind == "not-never":
        new = "((!(" + x + ") ~ " + NEVER + ") | (" + x + "))"
    elif kind == "extract":
        new = fresh_name
        return text[:start] + new + text[end:] + "\n" + fresh_name + " = _{ " + x + " }\n"
    else:
        raise ValueError(kind)
    return text[:start] + new + text[end:]


def fresh(g, n):
    names = {r[0] for r in g["rules"]}
    i = n
    while f"v{i}__" in names:
        i += 1
    return f"v{i}__"


def rewrite(text, steps_rng, nsteps):
    """Apply `nsteps` random rewrites. Returns (new_text, [(kind, rule, original snippet)])."""
    log = []
    for n in range(nsteps):
        g = sites_of(text)
        kind = steps_rng.choice(KINDS)
        cands = candidates(g, kind)
        if not cands:
            kind = "parens"
            cands = candidates(g, kind)
        start, end, rule = steps_rng.choice(cands)
        snippet = text[start:end]
        text = apply(text, kind, start, end, fresh(g, n))
        if meta.parse_grammar(text) is None:
            raise RewriteError(f"rewrite {kind} of {snippet!r} in rule {rule} produced an invalid grammar")
        log.append((kind, rule, snippet[:60]))
    return text, log
