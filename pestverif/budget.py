"""Step budget via sys.monitoring (DESIGN G4): JUMP | PY_START events are counted while armed."""

from __future__ import annotations

import os
import sys

TOOL = 3
_state = {"count": 0, "limit": 0, "tripped": False, "ready": False}


class BudgetExceeded(BaseException):
    """Raised inside the monitored code when the step budget is exhausted."""


def _on_event(*_args):
    st = _state
    st["count"] += 1
    if st["count"] > st["limit"] and not st["tripped"]:
        st["tripped"] = True
        raise BudgetExceeded()


def setup() -> None:
    if _state["ready"]:
        return
    mon = sys.monitoring
    if mon.get_tool(TOOL) is None:
        mon.use_tool_id(TOOL, "pestverif-budget")
    mon.register_callback(TOOL, mon.events.JUMP, _on_event)
    mon.register_callback(TOOL, mon.events.PY_START, _on_event)
    _state["ready"] = True


def run_limited(fn, limit: int):
    """Call fn() under a step budget. Returns (result, steps); raises BudgetExceeded."""
    setup()
    mon = sys.monitoring
    _state["count"] = 0
    _state["limit"] = limit
    _state["tripped"] = False
    mon.set_events(TOOL, mon.events.JUMP | mon.events.PY_START)
    try:
        return fn(), _state["count"]
    finally:
        mon.set_events(TOOL, 0)


def last_steps() -> int:
    return _state["count"]


def die_with_parent() -> None:
    """Linux: have the kernel SIGKILL this process when its parent dies, so that no worker outlives a killed
    shard / fresh child (an orphan would keep a CPU busy and hold the check's stdout pipe open)."""
    try:
        import ctypes
        import signal

        ctypes.CDLL(None, use_errno=True).prctl(1, int(signal.SIGKILL), 0, 0, 0)  # PR_SET_PDEATHSIG
        if os.getppid() == 1:
            os._exit(0)
    except Exception:  # noqa: BLE001
        pass
