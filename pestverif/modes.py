"""Execution of python-pest inside workers that are dedicated to one optimizer configuration (DESIGN G5).

A `Worker` is a forked child of a process that has never constructed a `pest.Parser`. It serves requests
`(function path, argument)`; functions obtain parsers through `get_parser()` which applies the worker's
configuration, so a "raw" worker can never create an optimized parser and vice versa.
"""

from __future__ import annotations

import importlib
import multiprocessing as mp
import os
import sys
import traceback
import types

from pestverif import budget

CONFIG: object = None  # "raw" | "opt" | list[int] (indices into DEFAULT_OPTIMIZER_PASSES)
DEFAULT_BUDGET = 3_000_000
_cache: dict = {}


class WorkerDied(Exception):
    pass


# ----------------------------------------------------------------------------- inside the worker


def make_optimizer():
    import pest

    if CONFIG == "raw" or CONFIG is None:
        return None
    if CONFIG == "opt":
        return pest.DEFAULT_OPTIMIZER
    return pest.Optimizer([pest.DEFAULT_OPTIMIZER_PASSES[i] for i in CONFIG])


def get_parser(text: str):
    """(parser, module-or-None, load outcome) for the worker's configuration, cached for the last grammar."""
    import pest

    key = ("p", text)
    if key in _cache:
        return _cache[key]
    _cache.clear()
    try:
        (parser, _steps) = budget.run_limited(
            lambda: pest.Parser.from_grammar(text, optimizer=make_optimizer()), 50_000_000
        )
        res = (parser, ("ok",))
    except pest.PestGrammarError as err:
        res = (None, ("grammar-error", type(err).__name__, _safe_str(err)))
    except budget.BudgetExceeded:
        res = (None, ("budget",))
    except RecursionError:
        res = (None, ("recursion",))
    except Exception as err:  # noqa: BLE001
        res = (None, ("exc", type(err).__name__, _where(err), _safe_str(err)[:200]))
    _cache[key] = res
    return res


def get_module(text: str):
    """(module, outcome, source) generated from the cached parser for `text`."""
    key = ("m", text)
    if key in _cache:
        return _cache[key]
    parser, load = get_parser(text)
    if parser is None:
        res = (None, load, None)
    else:
        try:
            src = parser.generate()
            mod = types.ModuleType("pestverif_generated")
            exec(compile(src, "<generated>", "exec"), mod.__dict__)  # noqa: S102
            if not callable(getattr(mod, "parse", None)):
                res = (None, ("exc", "NoParse", "", "generated module has no parse()"), src)
            else:
                res = (mod, ("ok",), src)
        except RecursionError:
            res = (None, ("recursion",), None)
        except Exception as err:  # noqa: BLE001
            res = (None, ("exc", type(err).__name__, _where(err), _safe_str(err)[:200]), None)
    _cache[key] = res
    return res


def _safe_str(err) -> str:
    try:
        return str(err)
    except Exception as e2:  # noqa: BLE001
        return f"<str() raised {type(e2).__name__}>"


def _where(err) -> str:
    tb = traceback.extract_tb(err.__traceback__)
    for fr in reversed(tb):
        if "/pest/" in fr.filename or fr.filename == "<generated>":
            name = fr.filename.split("/pest/")[-1]
            return f"{name}:{fr.name}"
    return "?"


def norm_tree(pairs) -> tuple:
    def one(p):
        return (p.name, p.start, p.end, p.tag, tuple(one(c) for c in p.children))

    return tuple(one(p) for p in pairs)


def run_parse(target, rule: str, text: str, start_pos: int, limit: int = DEFAULT_BUDGET, keep=None):
    """Run target.parse under the step budget and normalise the outcome.

    `keep`, if given, is called with the raw result (Pairs or PestParsingError) and its return value is
    appended to the outcome - used by C06/C13 to run their predicates inside the worker.
    """
    import pest

    try:
        (pairs, _steps) = budget.run_limited(lambda: target.parse(rule, text, start_pos=start_pos), limit)
    except pest.PestParsingError as err:
        st = err.state
        out = (
            "fail",
            st.furthest_pos,
            tuple(sorted(st.furthest_expected)),
            tuple(sorted(st.furthest_unexpected)),
        )
        return out + ((keep(err),) if keep else ())
    except budget.BudgetExceeded:
        return ("budget",)
    except RecursionError:
        return ("recursion",)
    except Exception as err:  # noqa: BLE001
        return ("exc", type(err).__name__, _where(err), _safe_str(err)[:200])
    if not isinstance(pairs, pest.Pairs):
        return ("exc", "NotPairs", "", f"parse() returned {type(pairs).__name__}")
    out = ("ok", norm_tree(pairs))
    return out + ((keep(pairs),) if keep else ())


def eval_grammar(req: dict) -> dict:
    """Generic request: parse every call with the interpreter and (optionally) the generated module.

    req: {"text", "calls": [(rule, input, start_pos)], "gen": bool, "keep": "module:function" or None,
          "gen_twice": bool, "limit": int}
    """
    text = req["text"]
    limit = req.get("limit", DEFAULT_BUDGET)
    keep = None
    if req.get("keep"):
        mod_name, fn_name = req["keep"].split(":")
        keep_fn = getattr(importlib.import_module(mod_name), fn_name)
        info = req.get("keep_info")

        def keep_factory(call):
            return lambda raw: keep_fn(raw, call, info)

    else:
        keep_factory = None
    parser, load = get_parser(text)
    out: dict = {"load": load, "int": [], "gen": [], "gen_load": None}
    if parser is None:
        return out
    for call in req["calls"]:
        rule, inp, k = call
        out["int"].append(run_parse(parser, rule, inp, k, limit, keep_factory(call) if keep_factory else None))
    if req.get("gen"):
        module, gload, src = get_module(text)
        out["gen_load"] = gload
        if req.get("gen_twice") and src is not None:
            try:
                out["gen_same"] = parser.generate() == src
            except Exception as err:  # noqa: BLE001
                out["gen_same"] = f"second generate() raised {type(err).__name__}"
        if module is not None:
            for call in req["calls"]:
                rule, inp, k = call
                out["gen"].append(
                    run_parse(module, rule, inp, k, limit, keep_factory(call) if keep_factory else None)
                )
    if req.get("tree_view"):
        try:
            out["tree_view"] = parser.tree_view()
        except Exception as err:  # noqa: BLE001
            out["tree_view"] = f"tree_view raised {type(err).__name__}"
    return out


def _serve(conn, config) -> None:
    global CONFIG
    CONFIG = config
    sys.setrecursionlimit(4000)
    budget.die_with_parent()
    budget.setup()
    while True:
        try:
            msg = conn.recv()
        except EOFError:
            return
        if msg is None:
            return
        fn_path, arg = msg
        try:
            mod_name, fn_name = fn_path.split(":")
            fn = getattr(importlib.import_module(mod_name), fn_name)
            conn.send(("ok", fn(arg)))
        except BaseException:  # noqa: BLE001
            conn.send(("err", traceback.format_exc()))


# ----------------------------------------------------------------------------- driver side


DEFAULT_TIMEOUT = {"quick": 120.0, "thorough": 900.0}


class Worker:
    """A child process dedicated to one optimizer configuration."""

    def __init__(self, config, timeout: float | None = None):
        self.config = config
        # wall-clock guard only (C-level hangs); Python-level loops are cut by the counted step budget. Generous in
        # the thorough tier, where 16 shards and large call lists share the machine with other work.
        self.timeout = timeout if timeout is not None else DEFAULT_TIMEOUT[os.environ.get("PESTVERIF_TIER", "quick")]
        self._start()

    def _start(self):
        ctx = mp.get_context("fork")
        self.conn, child = ctx.Pipe()
        self.proc = ctx.Process(target=_serve, args=(child, self.config), daemon=False)
        self.proc.start()
        child.close()

    def call(self, fn_path: str, arg):
        self.conn.send((fn_path, arg))
        if not self.conn.poll(self.timeout):
            self.proc.kill()
            self.proc.join()
            self._start()
            raise WorkerDied(f"worker {self.config!r} timed out in {fn_path}")
        try:
            status, value = self.conn.recv()
        except EOFError as err:
            self.proc.join()
            self._start()
            raise WorkerDied(f"worker {self.config!r} died in {fn_path}") from err
        if status == "err":
            raise RuntimeError(f"harness function {fn_path} failed in worker:\n{value}")
        return value

    def close(self):
        try:
            self.conn.send(None)
        except Exception:  # noqa: BLE001
            pass
        self.proc.join(2)
        if self.proc.is_alive():
            self.proc.kill()
            self.proc.join()


def one_shot(config, fn_path: str, arg, timeout: float | None = None):
    """Run one request in a fresh child (custom optimizer pass lists, isolation replays)."""
    w = Worker(config, timeout)
    try:
        return w.call(fn_path, arg)
    finally:
        w.close()


class Modes:
    """The four execution modes: raw/opt worker x interpreter/generated."""

    def __init__(self):
        self.raw = Worker("raw")
        self.opt = Worker("opt")

    def eval(self, text, calls, **kw) -> dict:
        """Returns {"raw-int": [...], "raw-gen": [...], "opt-int": [...], "opt-gen": [...], "load": {...}}."""
        req = {"text": text, "calls": calls, "gen": True, **kw}
        out: dict = {"load": {}, "gen_load": {}, "extra": {}}
        for name, w in (("raw", self.raw), ("opt", self.opt)):
            res = w.call("pestverif.modes:eval_grammar", req)
            out["load"][name] = res["load"]
            out["gen_load"][name] = res["gen_load"]
            out[name + "-int"] = res["int"]
            out[name + "-gen"] = res["gen"]
            out["extra"][name] = {k: v for k, v in res.items() if k in ("gen_same", "tree_view")}
        return out

    def close(self):
        self.raw.close()
        self.opt.close()
