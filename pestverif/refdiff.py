"""Reference-semantics differential shared by C03 / C04 / C05: refpeg vs python-pest execution modes."""

from __future__ import annotations

from pestverif import ganalysis, gast, gprint, refpeg
from pestverif.gast import BUILTIN_IDS, children, with_children

ALL_MODES = ("raw-int", "raw-gen", "opt-int", "opt-gen")


def untag(tree):
    return tuple((n, s, e, untag(c)) for n, s, e, _t, c in tree)


def ref_outcome(rules, rule, text, start_pos=0, budget=300_000):
    """('ok', tree) | ('fail',) | ('unspec', why) | ('budget',), stats."""
    rm = {n: (m, gast.strip(e)) for n, m, e in rules}
    try:
        out, stats = refpeg.parse(rm, rule, text, start_pos, budget=budget)
    except refpeg.Unspecified as err:
        return ("unspec", str(err)), {}
    except refpeg.Budget:
        return ("budget",), {}
    except RecursionError:
        return ("budget",), {}
    return out, stats


def classify(got, want):
    """None if `got` (a modes outcome) agrees with the reference outcome `want`, else a short class."""
    g = got[0]
    if g in ("budget", "recursion"):
        return "inconclusive"
    if g == "exc":
        return f"exc:{got[1]}@{got[2]}"
    if g == "ok" and want[0] == "ok":
        return None if untag(got[1]) == want[1] else "tree"
    if g == "fail" and want[0] == "fail":
        return None
    return f"{g}-vs-{want[0]}"


def describe(got, want):
    def short(x):
        s = repr(x)
        return s if len(s) < 400 else s[:400] + "..."

    g = ("ok", untag(got[1])) if got[0] == "ok" else got[:4]
    return f"python-pest: {short(g)}; reference: {short(want)}"


def make_case(rules, rule, inp, start_pos, mode):
    return {
        "rules": gast.to_json([list(r) for r in rules]),
        "rule": rule,
        "input": inp,
        "start_pos": start_pos,
        "mode": mode,
        "grammar_text": gprint.grammar_text(rules),
    }


def case_rules(case):
    return [tuple(gast.tup(r)) for r in case["rules"]]


def eval_case(modes, case):
    """Violation description for the case's mode, or None. Used by replay and the shrinker."""
    rules = case_rules(case)
    if ganalysis.Analysis(rules).problems(BUILTIN_IDS):
        return None
    want, _ = ref_outcome(rules, case["rule"], case["input"], case.get("start_pos", 0))
    if want[0] in ("unspec", "budget"):
        return None
    text = gprint.grammar_text(rules)
    mode = case["mode"]
    worker = modes.raw if mode.startswith("raw") else modes.opt
    res = worker.call(
        "pestverif.modes:eval_grammar",
        {"text": text, "calls": [(case["rule"], case["input"], case.get("start_pos", 0))], "gen": mode.endswith("gen")},
    )
    if res["load"][0] != "ok":
        return None  # front-end rejection belongs to C10 (G10)
    if mode.endswith("gen"):
        if res["gen_load"][0] != "ok":
            return f"generated module failed to load: {res['gen_load']}"
        got = res["gen"][0]
    else:
        got = res["int"][0]
    cls = classify(got, want)
    if cls is None or cls == "inconclusive":
        return None
    return f"[{mode}] {cls}: " + describe(got, want)


def check_grammar(ctx, modes, rules, calls, mode_names, nontrivial_fn, exhaustive=False, excluded=None):
    """Compare every call in every mode with the reference; record evidence and violations in ctx.

    `modes` is a modes.Modes; `excluded(rules, mode) -> finding id | None` implements the syntactic
    known-finding preconditions (DESIGN 5.2).
    """
    text = gprint.grammar_text(rules)
    wants, live = [], []
    for call in calls:
        want, stats = ref_outcome(rules, call[0], call[1], call[2])
        if want[0] in ("unspec", "budget"):
            ctx.count("discarded_" + want[0])
            continue
        wants.append((want, stats))
        live.append(call)
    if not live:
        return
    results = {}
    for side in ("raw", "opt"):
        names = [m for m in mode_names if m.startswith(side)]
        if not names:
            continue
        skip = {m: excluded(rules, m) for m in names} if excluded else {}
        for m, why in skip.items():
            if why:
                ctx.count(f"excluded_known:{why}:{m}")
        names = [m for m in names if not skip.get(m)]
        if not names:
            continue
        worker = modes.raw if side == "raw" else modes.opt
        res = worker.call(
            "pestverif.modes:eval_grammar",
            {"text": text, "calls": live, "gen": any(m.endswith("gen") for m in names)},
        )
        if res["load"][0] != "ok":
            ctx.count("frontend_rejected:" + side)
            continue
        for m in names:
            if m.endswith("int"):
                results[m] = res["int"]
            elif res["gen_load"] and res["gen_load"][0] == "ok":
                results[m] = res["gen"]
            else:
                ctx.count("generated_module_unloadable:" + side)
                ctx.violation(
                    f"{m}:genload:{res['gen_load'][1] if res['gen_load'] and len(res['gen_load']) > 1 else '?'}",
                    make_case(rules, live[0][0], live[0][1], live[0][2], m),
                    f"generated module failed to load: {res['gen_load']}",
                )
    for i, (call, (want, stats)) in enumerate(zip(live, wants)):
        nt = nontrivial_fn(stats, want, call)
        ctx.count("ref_" + want[0])
        for m, outs in results.items():
            got = outs[i]
            ctx.evals += 1
            cls = classify(got, want)
            if cls == "inconclusive":
                ctx.count("budget_exhausted")
                continue
            if nt:
                if exhaustive:
                    ctx.nt_extra += 1
                else:
                    ctx.nontrivial([text, call, m])
            if cls is not None:
                ctx.violation(f"{m}:{cls}", make_case(rules, call[0], call[1], call[2], m), describe(got, want))


def std_replay(case):
    from pestverif.modes import Modes

    m = Modes()
    try:
        return eval_case(m, case)
    finally:
        m.close()


def std_shrink(case):
    from pestverif.modes import Modes

    m = Modes()
    try:
        first = eval_case(m, case)
        if not first:
            return case
        cls = first.split(":")[0]

        def fails(c):
            r = eval_case(m, c)
            return bool(r) and r.split(":")[0] == cls

        return shrink_case(case, fails)
    finally:
        m.close()


# ----------------------------------------------------------------------------- shrinking


def _expr_candidates(e):
    """Smaller variants of an expression (one step)."""
    k = e[0]
    cs = children(e)
    for c in cs:
        yield c
    if k in ("seq", "alt") and len(e[1]) > 2:
        for i in range(len(e[1])):
            yield (k, e[1][:i] + e[1][i + 1 :])
    if k in ("str", "ci", "pushlit") and len(e[1]) > 1:
        yield (k, e[1][:-1])
        yield (k, e[1][1:])
    if k in ("exact", "min", "max") and e[2] > (0 if k == "min" else 1):
        yield (k, e[1], e[2] - 1)
    if k == "minmax":
        if e[3] > max(1, e[2]):
            yield (k, e[1], e[2], e[3] - 1)
        if e[2] > 0:
            yield (k, e[1], e[2] - 1, e[3])
    if k in ("plus", "exact", "min", "minmax"):
        yield ("star", e[1])
    if k in ("max",):
        yield ("opt", e[1])
    if k == "ci":
        yield ("str", e[1])
    if k == "range" and e[1] != e[2]:
        yield ("str", e[1])
    if k == "id" and e[1] not in ("ANY",) and e[1] in BUILTIN_IDS and e[1] not in gast.STACK_IDS + ("SOI", "EOI"):
        yield ("id", "ANY")
    for i, c in enumerate(cs):
        for c2 in _expr_candidates(c):
            new = list(cs)
            new[i] = c2
            yield with_children(e, new)


def _rule_candidates(rules, start_rule):
    names = [n for n, _, _ in rules]
    used = set()
    for _, _, e in rules:
        for n in gast.walk(e):
            if n[0] == "id":
                used.add(n[1])
    for i, (n, m, e) in enumerate(rules):
        if n != start_rule and n not in used:
            yield rules[:i] + rules[i + 1 :]
    for i, (n, m, e) in enumerate(rules):
        if m and n not in ("WHITESPACE", "COMMENT"):
            yield rules[:i] + [(n, "", e)] + rules[i + 1 :]
    # inline: replace a reference by ANY / a literal is covered by expression candidates
    for i, (n, m, e) in enumerate(rules):
        for e2 in _expr_candidates(e):
            yield rules[:i] + [(n, m, e2)] + rules[i + 1 :]
    assert names


def shrink_case(case, fails, max_evals=350):
    """Greedy structural shrinking; `fails(case) -> bool` must hold for the result."""
    evals = 0
    best = dict(case)
    improved = True
    while improved and evals < max_evals:
        improved = False
        # input first (cheap wins)
        inp = best["input"]
        for i in range(len(inp)):
            cand = dict(best)
            cand["input"] = inp[:i] + inp[i + 1 :]
            evals += 1
            if fails(cand):
                best, improved = cand, True
                break
            if evals >= max_evals:
                break
        if improved:
            continue
        rules = case_rules(best)
        for rules2 in _rule_candidates(rules, best["rule"]):
            if evals >= max_evals:
                break
            if ganalysis.Analysis(rules2).problems(BUILTIN_IDS):
                continue
            cand = dict(best)
            cand["rules"] = gast.to_json([list(r) for r in rules2])
            cand["grammar_text"] = gprint.grammar_text(rules2)
            evals += 1
            if fails(cand):
                best, improved = cand, True
                break
    return best


# ----------------------------------------------------------------------------- generic replay / shrink


def replay_with(eval_fn):
    def replay(case):
        from pestverif.modes import Modes

        m = Modes()
        try:
            return eval_fn(m, case)
        finally:
            m.close()

    return replay


def shrink_with(eval_fn, shrink_start_pos=True):
    def shrink(case):
        from pestverif.modes import Modes

        m = Modes()
        try:
            first = eval_fn(m, case)
            if not first:
                return case
            cls = first.split(":")[0]

            def fails(c):
                r = eval_fn(m, c)
                return bool(r) and r.split(":")[0] == cls

            best = case
            if shrink_start_pos and case.get("start_pos"):
                cand = dict(case)
                cand["input"] = case["input"][case["start_pos"] :]
                cand["start_pos"] = 0
                if fails(cand):
                    best = cand
            best = shrink_case(best, lambda c: _clamp(c) and fails(c))
            return best
        finally:
            m.close()

    return shrink


def _clamp(c):
    if c.get("start_pos", 0) > len(c["input"]):
        c["start_pos"] = len(c["input"])
    return True
