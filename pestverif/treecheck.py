"""C06 validity predicates on the public Pairs / Pair API. Runs inside a worker (needs the live objects)."""

from __future__ import annotations

import json


def _scan_compact(s: str):
    """Identifiers and JSON leaf literals of Pairs.dumps() output, in order."""
    dec = json.JSONDecoder()
    idents, leaves = [], []
    i, n = 0, len(s)
    while i < n:
        c = s[i]
        if c.isalpha() or c == "_":
            j = i
            while j < n and (s[j].isalnum() or s[j] == "_"):
                j += 1
            idents.append(s[i:j])
            i = j
            if s.startswith(': "', i):
                val, end = dec.raw_decode(s, i + 2)
                leaves.append(val)
                i = end
        else:
            i += 1
    return idents, leaves


def check_pairs(pairs, call, info) -> list[str]:
    """Return a list of problems (empty = well formed). info: {"names", "tags", "silent"}."""
    from pest import End, Pair, Pairs, Start

    if isinstance(pairs, Exception):
        return []
    rule, text, start_pos = call
    names = set(info["names"])
    tags = set(info["tags"])
    problems: list[str] = []

    def bad(msg):
        if len(problems) < 5:
            problems.append(msg)

    n = len(text)
    try:
        top = list(pairs)
        if len(pairs) != len(top) or any(pairs[i] is not top[i] for i in range(len(top))):
            bad("Pairs: len()/indexing disagree with iteration")

        def visit(p, lo, hi, depth):
            if not isinstance(p, Pair):
                bad(f"non-Pair object {type(p).__name__} in the tree")
                return
            if not (start_pos <= p.start <= p.end <= n):
                bad(f"pair {p.name} span {p.start}..{p.end} outside start_pos..len ({start_pos}..{n})")
            if not (lo <= p.start and p.end <= hi):
                bad(f"pair {p.name} {p.start}..{p.end} not inside its parent/sibling bounds {lo}..{hi}")
            want = text[p.start : p.end]
            sp = p.span()
            if not (p.text == want and str(p) == want and p.as_str() == want and str(sp) == want):
                bad(f"pair {p.name}: text/str/as_str/span disagree with input[{p.start}:{p.end}]")
            if (sp.start, sp.end) != (p.start, p.end):
                bad(f"pair {p.name}: span() is {sp.start}..{sp.end}, pair is {p.start}..{p.end}")
            if p.name not in names:
                bad(f"pair name {p.name!r} is not a non-silent rule of the grammar (or EOI)")
            if p.name != p.rule.name:
                bad(f"pair.name {p.name!r} != pair.rule.name {p.rule.name!r}")
            if p.tag is not None and p.tag not in tags:
                bad(f"tag {p.tag!r} on pair {p.name} is not written in the grammar")
            kids = list(p)
            if kids != list(p.children) or list(p.inner()) != kids:
                bad(f"pair {p.name}: iteration / inner() / children disagree")
            if p.inner_texts != [str(c) for c in kids]:
                bad(f"pair {p.name}: inner_texts disagree with the children")
            st = p.stream()
            seen = []
            while True:
                nx = st.next()
                if nx is None:
                    break
                seen.append(nx)
                if len(seen) > len(kids) + 1:
                    break
            if seen != kids or st.peek() is not None:
                bad(f"pair {p.name}: stream() does not step through the children")
            cur = p.start
            for c in kids:
                if isinstance(c, Pair) and c.start < cur:
                    bad(f"children of {p.name} overlap or are out of order at {c.name} {c.start}..{c.end}")
                visit(c, max(cur, p.start), p.end, depth + 1)
                if isinstance(c, Pair):
                    cur = max(cur, c.end)

        cur = start_pos
        for p in top:
            if isinstance(p, Pair) and p.start < cur:
                bad(f"top-level pairs overlap or are out of order at {p.name}")
            visit(p, cur, n, 0)
            if isinstance(p, Pair):
                cur = max(cur, p.end)

        if rule not in info["silent"]:
            if len(top) != 1:
                bad(f"non-silent start rule {rule} produced {len(top)} root pairs")
            elif top[0].start != start_pos or top[0].name != rule:
                bad(f"root pair is {top[0].name} at {top[0].start}, expected {rule} at start_pos {start_pos}")

        # tokens(): balanced Start/End stream, non-decreasing positions; flatten() is its pre-order
        toks = list(pairs.tokens())
        stack = []
        last = start_pos
        pre = []
        for t in toks:
            if t.pos < last:
                bad("tokens(): positions decrease")
            last = t.pos
            if isinstance(t, Start):
                stack.append(t.rule.name)
                pre.append((t.rule.name, t.pos))
            elif isinstance(t, End):
                if not stack or stack.pop() != t.rule.name:
                    bad("tokens(): unbalanced Start/End stream")
                    break
            else:
                bad("tokens(): unknown token type")
        if stack:
            bad("tokens(): unbalanced Start/End stream (unclosed Start)")
        # a pair IS a matching Start/End token pair: Start at its start, its children's tokens, End at its end
        want_toks = []

        def emit(p):
            want_toks.append(("S", p.name, p.start))
            for c in p.children:
                emit(c)
            want_toks.append(("E", p.name, p.end))

        for p in top:
            emit(p)
        got_toks = [("S" if isinstance(t, Start) else "E" if isinstance(t, End) else "?", t.rule.name, t.pos) for t in toks]
        if got_toks != want_toks:
            bad("tokens(): not the Start(start) .. children .. End(end) stream of the pairs")
        flat = list(pairs.flatten())
        if [(p.name, p.start) for p in flat] != pre:
            bad("flatten() is not the pre-order of the Start tokens")
        if list(Pairs(top).stream().pairs) != top:
            bad("stream() does not expose the pairs")

        # dump()/dumps()
        d = pairs.dump()
        pretty = pairs.dumps(compact=False)
        compact = pairs.dumps()
        if json.loads(pretty) != d:
            bad("json.loads(dumps(compact=False)) != dump()")

        def dump_matches(dd, ps):
            if len(dd) != len(ps):
                return False
            for x, p in zip(dd, ps):
                if x.get("rule") != p.name or x.get("span") != {"str": text[p.start : p.end], "start": p.start, "end": p.end}:
                    return False
                if x.get("node_tag") != p.tag and not (p.tag is None and "node_tag" not in x):
                    return False
                if not dump_matches(x.get("inner", []), list(p.children)):
                    return False
            return True

        if not dump_matches(d, top):
            bad("dump() does not mirror the pairs (rule, span, node_tag, inner)")
        # compact form: same (tag, rule) names in pre-order; leaves carry their text as a JSON string
        idents, leaves = _scan_compact(compact)
        want_idents, want_leaves = [], []
        for p in flat:
            if p.tag:
                want_idents.append(p.tag)
            want_idents.append(p.name)
            if not p.children:
                want_leaves.append(text[p.start : p.end])
        if idents != want_idents:
            bad("dumps(): compact form does not list the same rule names in pre-order")
        elif leaves != want_leaves:
            bad("dumps(): compact form leaf texts differ from the pairs' texts")
    except Exception as err:  # noqa: BLE001
        import traceback

        tb = traceback.extract_tb(err.__traceback__)
        where = next((f"{f.filename.split('/')[-1]}:{f.name}" for f in reversed(tb) if "/pest/" in f.filename), "?")
        if where == "?":
            raise
        bad(f"Pairs API raised {type(err).__name__} at {where}: {err}")
    return problems
