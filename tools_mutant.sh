#!/bin/sh
# usage: tools_mutant.sh <patch.diff> <check id>...   - run quick checks against a patched scratch worktree of /repo
# (PYTHONPATH makes `import pest` resolve to the worktree; /repo itself is never touched)
set -e
PATCH=$1; shift
WT=$(mktemp -d /tmp/mwt.XXXXXX)
git -C /repo worktree add -f --detach "$WT" HEAD -q
( cd "$WT" && git apply "$PATCH" )
cd /verif
for c in "$@"; do
  out=$(PYTHONPATH="$WT/src" PESTVERIF_EVIDENCE_DIR=/tmp/pestverif_scratch_evidence PYTHONHASHSEED=0 PESTVERIF_MAX_BUCKETS=${MAXB:-3} timeout 1800 /venv/bin/python -m pestverif check $c --tier ${TIER:-quick} 2>&1 || true)
  n=$(echo "$out" | grep -c "^VIOLATION" || true)
  echo "== $c: $n violation line(s); $(echo "$out" | grep "^$c " | tail -1)"
  echo "$out" | grep -A1 "^VIOLATION" | grep "bucket=" | cut -c1-260 | head -${SHOW:-3}
done
git -C /repo worktree remove --force "$WT"
rm -rf /tmp/pestverif_scratch_evidence
