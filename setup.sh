#!/bin/sh
# Offline setup: make Hypothesis importable in /venv (it normally already is).
set -e
HERE=$(cd "$(dirname "$0")" && pwd)
/venv/bin/python -c "import hypothesis" 2>/dev/null || \
  /venv/bin/pip install --no-index --find-links /opt/veriftools/wheels hypothesis
/venv/bin/python -c "import pest, regex, hypothesis; print('setup ok', hypothesis.__version__)"
# optional engine for the thorough tier of C11 (skipped and counted there if unavailable)
/venv/bin/python -c "import sys; sys.path.insert(0, '$HERE/.deps'); import atheris" 2>/dev/null || \
  /venv/bin/pip install -q --no-index --find-links /opt/veriftools/wheels --target "$HERE/.deps" atheris 2>/dev/null || \
  echo "atheris not installed (optional)"
