#!/bin/sh
# Offline setup: make Hypothesis importable in /venv (it normally already is).
set -e
/venv/bin/python -c "import hypothesis" 2>/dev/null || \
  /venv/bin/pip install --no-index --find-links /opt/veriftools/wheels hypothesis
/venv/bin/python -c "import pest, regex, hypothesis; print('setup ok', hypothesis.__version__)"
