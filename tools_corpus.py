"""Build /verif/corpus/index.json from the repository's tests and examples (run once; output committed)."""
import ast, json, os

REPO = "/repo"
MAP = {
    "tests/test_json_grammar.py": "tests/grammars/json.pest",
    "tests/test_toml_grammar.py": "tests/grammars/toml.pest",
    "tests/test_http_grammar.py": "tests/grammars/http.pest",
    "tests/test_sql_grammar.py": "tests/grammars/sql.pest",
    "tests/test_lists_grammar.py": "tests/grammars/lists.pest",
    "tests/test_surround_grammar.py": "tests/grammars/surround.pest",
    "tests/test_reporting.py": "tests/grammars/reporting.pest",
    "tests/test_grammar.py": "tests/grammars/grammar.pest",
}
entries = {}

def add(grammar, rule, inp):
    entries.setdefault((grammar, rule), [])
    if inp not in entries[(grammar, rule)]:
        entries[(grammar, rule)].append(inp)

for tf, gf in MAP.items():
    tree = ast.parse(open(os.path.join(REPO, tf), encoding="utf-8").read())
    for node in ast.walk(tree):
        if isinstance(node, ast.Call) and isinstance(node.func, ast.Attribute) and node.func.attr == "parse":
            if len(node.args) >= 2 and all(isinstance(a, ast.Constant) and isinstance(a.value, str) for a in node.args[:2]):
                add(gf, node.args[0].value, node.args[1].value)

def rd(p):
    return open(os.path.join(REPO, p), encoding="utf-8").read()

add("tests/grammars/json.pest", "json", rd("tests/examples/example.json"))
add("examples/json/json.pest", "json", rd("examples/json/example.json"))
add("examples/json/json.pest", "json", rd("tests/examples/example.json"))
add("examples/json/json.pest", "json", '{"a": [1, 2.5e3, true, null, {"b": "c\\n\\u00e9"}], "d": {}}')
add("examples/json/json.pest", "json", '[ ]')
add("tests/grammars/toml.pest", "toml", rd("tests/examples/example.toml"))
add("tests/grammars/http.pest", "http", rd("tests/examples/example.http"))
add("examples/csv/csv.pest", "file", rd("examples/csv/example.csv"))
add("examples/ini/ini.pest", "file", rd("examples/ini/example.ini"))
for e in ["1 + 2 * 3", "-x ^ 2 ^ 3!", "(1 + 2) * -3 / 4 - 5", "2 ^ -1", "a!!", "1", "((x))", "1 - 2 - 3", "2! + 3", "1 +", "* 2"]:
    add("examples/calculator/calculator.pest", "program", e)
    add("examples/calculator/grammar_encoded_prec.pest", "program", e)
for q in ["$", "$.a.b[0]", "$..x[?@.y > 1]", "$[*]", "$['a','b']", "$[1:5:2]", "$.store.book[?@.price < 10 && @.category == 'fiction'].title",
          "$[?length(@.a) >= 2]", "$..[?match(@.b, 'a.*')]", "$.a[?@.b == \"x\\n\"]", "$[", "$.a..", "$[?@.a ==]", "$[-1]", "$[?!@.a || (@.b && @.c)]"]:
    add("examples/jsonpath/jsonpath.pest", "jsonpath", q)

index = [{"grammar": g, "rule": r, "inputs": ins} for (g, r), ins in sorted(entries.items())]
os.makedirs("/verif/corpus", exist_ok=True)
json.dump(index, open("/verif/corpus/index.json", "w"), indent=1, ensure_ascii=True)
print(len(index), "entries", sum(len(e["inputs"]) for e in index), "inputs")
