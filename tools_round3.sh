#!/bin/sh
# usage: tools_round3.sh <agent dir under /tmp/sa> <check id>...  - confirm an agent's seed and run the quick checks against it
T=$1; shift
D=${SA:-/tmp/sa}/$T/_seed
echo "##### $T"
/verif/tools_confirm.sh $D 2>&1 | grep -E "^--|passed|failed|PASS|FAIL|exit=" | cut -c1-160
for c in "$@"; do
  /verif/tools_mutant.sh $D/patch.diff $c 2>&1 | cut -c1-330
done
