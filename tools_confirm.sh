#!/bin/sh
# usage: tools_confirm.sh <dir with patch.diff and demo.py>  - confirm a seeded change independently:
# the patch applies to /repo HEAD, the suite still passes with it, the demo fails with it and passes without it.
set -e
D=$1
WT=$(mktemp -d /tmp/cwt.XXXXXX)
git -C /repo worktree add -f --detach "$WT" HEAD -q
cd "$WT"
echo "-- demo WITHOUT the change:"; PYTHONPATH="$WT/src" /venv/bin/python "$D/demo.py" 2>&1 | tail -3; echo "   exit=$?"
git apply "$D/patch.diff"
git diff --stat | tail -3
echo "-- test suite WITH the change:"; PYTHONPATH="$WT/src" /venv/bin/python -m pytest -q -p no:cacheprovider --continue-on-collection-errors 2>&1 | tail -1
echo "-- demo WITH the change:"; set +e; PYTHONPATH="$WT/src" /venv/bin/python "$D/demo.py" 2>&1 | tail -3; echo "   exit=$?"
cd /; git -C /repo worktree remove --force "$WT"
