"""usage: tools_seed_save.py <seed id> <src dir> <property> <needs> <caught_by csv> <missed_by csv> [note]"""
import json, os, shutil, sys
sid, src, prop, needs, caught, missed = sys.argv[1:7]
note = sys.argv[7] if len(sys.argv) > 7 else ""
d = f"/verif/seeded/{sid}"
os.makedirs(d, exist_ok=True)
for f in ("patch.diff", "demo.py", "notes.md"):
    if os.path.exists(os.path.join(src, f)):
        shutil.copy(os.path.join(src, f), os.path.join(d, f))
meta = {
    "id": sid,
    "breaks_property": prop,
    "origin": "independent sub-agent given only the property text and a scratch worktree" if not note.startswith("own:") else "written by the framework author as a sensitivity probe",
    "needs_to_manifest": needs,
    "confirmed": "tools_confirm.sh: patch applies to /repo HEAD, test-suite 678 passed with it, demo.py FAIL with / PASS without",
    "ran": f"tools_mutant.sh {sid}/patch.diff " + " ".join((caught + "," + missed).replace(",", " ").split()) + "  (quick tier, VERIF_SEED=1)",
    "caught_by_quick": [c for c in caught.split(",") if c],
    "missed_by_quick": [c for c in missed.split(",") if c],
    "note": note,
}
json.dump(meta, open(os.path.join(d, "meta.json"), "w"), indent=1)
print("saved", d)
