#!/bin/sh
# Re-run, for every seeded change, the quick tier of the checks recorded as catching it (meta.json: caught_by_quick)
# against a patched scratch worktree. Prints one line per (seed, check): CAUGHT / MISSED.
cd /verif
for d in seeded/*/; do
  id=$(basename "$d")
  checks=$(/venv/bin/python -c "import json;print(' '.join(json.load(open('$d/meta.json'))['caught_by_quick']))")
  WT=$(mktemp -d /tmp/mwt.XXXXXX)
  git -C /repo worktree add -f --detach "$WT" HEAD -q
  if ! ( cd "$WT" && git apply "/verif/$d/patch.diff" ) ; then echo "$id: PATCH DOES NOT APPLY"; git -C /repo worktree remove --force "$WT"; continue; fi
  for c in $checks; do
    out=$(PYTHONPATH="$WT/src" PESTVERIF_EVIDENCE_DIR=/tmp/pestverif_scratch_evidence PYTHONHASHSEED=0 PESTVERIF_MAX_BUCKETS=1 timeout 1800 /venv/bin/python -m pestverif check $c --tier quick 2>&1 || true)
    n=$(echo "$out" | grep -c "^VIOLATION" || true)
    if [ "$n" -gt 0 ]; then echo "$id $c: CAUGHT"; else echo "$id $c: MISSED  ($(echo "$out" | tail -1 | cut -c1-120))"; fi
  done
  git -C /repo worktree remove --force "$WT"
done
rm -rf /tmp/pestverif_scratch_evidence
